#!/usr/bin/env python3
"""Write the prompt for an independent property-breaking change (author tool).

  tools/seed_prompt.py <round-letter> <worktree-root> <out-dir> [ids...]

The prompt contains the property text (title, statement, holds_for) and a
short summary of the changes earlier rounds produced for the same property
(so that the new one differs); nothing about the checks in /verif.
"""
import json
import os
import sys

ROOT = os.path.dirname(os.path.dirname(os.path.abspath(__file__)))

TEMPLATE = """You are working in a scratch git worktree of the Python repository rl-blox (a JAX/Flax toolbox of single-file reinforcement-learning algorithms: DQN, SAC, TD3/TD7, PPO, CMA-ES, PETS, replay buffers, losses, loggers). Your worktree is {wt}. Work ONLY inside {wt}. Never touch or read /repo or /verif.

Use the interpreter /venv/bin/python and ALWAYS set PYTHONPATH={wt} so that `import rl_blox` resolves to your worktree (check once: `cd /tmp && PYTHONPATH={wt} /venv/bin/python -c "import rl_blox; print(rl_blox.__file__)"` must print a path under {wt}). Do not run python with the current directory inside rl_blox/ (its `logging` sub-package shadows the standard library). Set JAX_PLATFORMS=cpu. No network is available.

Here is a semantic property that the code base is supposed to satisfy:

  Title: {title}
  Statement: {statement}
  Holds for: {holds}

YOUR TASK: produce a realistic source change to the rl_blox package (in your worktree only) that BREAKS this property, while the code still imports/compiles and the repository's existing test suite still passes. The change must need something specific in order to manifest - e.g. a particular multi-step sequence of operations, a boundary or unusual (but valid) input or configuration, a particular shape, a wrap-around, an episode ending exactly at some point, or two cooperating code sites that each look fine alone - and must NOT be something that any ordinary use would expose at once (e.g. do not simply make a function always return garbage or always raise). It should look like a plausible slip in a refactoring or "optimisation" (off-by-one, wrong axis, dropped mask, wrong variable, swapped arguments, stale value, missing reset, changed comparison, aliasing instead of copying, caching, float32 cancellation, ...). Keep it small (a few lines).

IMPORTANT - make it different and harder: {n_prev} other engineers have already produced changes for this property.
{prev}
Your change MUST differ from all of them in mechanism AND location: target yet another clause of the statement or another algorithm / class / code path that the property covers, and prefer parts that are rarely exercised: secondary algorithms, wrapper classes, helper functions used by several algorithms, unusual-but-valid configurations (continued runs with a non-zero starting step count, several gradient steps per environment step, horizon 1, capacity 1, a single environment, integer-typed numeric arguments, environments behind wrappers, asymmetric action bounds, multi-task network classes, tasks / arms / members counts of 1, values far from zero, repeated use of the same object or file), or the interaction of two functions that are each correct alone. Subtle is better than blatant: the ideal change leaves the most common configuration completely unaffected and changes results only slightly or rarely elsewhere.

Deliver three files in {wt}/_out/ :
 1. patch.diff  - output of `git -C {wt} diff -- rl_blox` (your change; leave the change applied in the worktree, do not commit).
 2. demo.py     - a small self-contained demonstration program that exercises the real rl_blox code and exits with a NON-ZERO status (assertion failure) when your change is applied, and exits 0 on the original code. Verify BOTH: run it with the change applied (must fail); then un-apply your change with `git -C {wt} apply -R {wt}/_out/patch.diff`, run again (must pass), and re-apply it with `git -C {wt} apply {wt}/_out/patch.diff`. Do NOT use `git stash` (the stash is shared between all worktrees of the repository and other agents are working in parallel). Run it as `cd /tmp && JAX_PLATFORMS=cpu PYTHONPATH={wt} /venv/bin/python {wt}/_out/demo.py`.
 3. meta.json   - JSON with keys: property ("{pid}"), summary (what you changed), needs_to_manifest (what specific situation exposes it), files_changed (list), commands_run (list of the commands you ran to verify, with their outcome).

Also confirm that the existing tests still pass with your change applied: `cd {wt} && JAX_PLATFORMS=cpu PYTHONPATH={wt} /venv/bin/python -m pytest -q -p no:cacheprovider --no-cov -n 4 --timeout=900 tests` (takes several minutes; if that is too slow run at least every test file related to the code you changed, and say in meta.json what you ran). If a test fails because of your change, choose a different change.

Be economical: read only the code you need (start from rl_blox/ and find the code the property is about). Finish by replying with a short summary (what the change is, which file, what exposes it)."""


def main():
    letter, wtroot, outdir = sys.argv[1:4]
    ids = sys.argv[4:]
    props = [json.loads(l) for l in open(os.path.join(ROOT, "properties.jsonl"))]
    os.makedirs(outdir, exist_ok=True)
    for p in props:
        pid = p["id"]
        if ids and pid not in ids:
            continue
        prev = []
        for d in sorted(os.listdir(os.path.join(ROOT, "seeded"))):
            if not d.startswith(pid + "-") or d[-1] >= letter:
                continue
            meta = json.load(open(os.path.join(ROOT, "seeded", d, "meta.json")))
            summ = str(meta.get("summary", ""))[:420].replace("\n", " ")
            prev.append(f"Change {len(prev) + 1} (files {meta.get('files_changed')}): "
                        f"\"{summ}\".")
        wt = os.path.join(wtroot, pid)
        text = TEMPLATE.format(
            wt=wt, title=p["title"], statement=p["statement"],
            holds=p.get("quantifier") or "", pid=pid,
            n_prev=len(prev), prev="\n".join(prev))
        with open(os.path.join(outdir, f"prompt_{letter}_{pid}.txt"), "w") as f:
            f.write(text)
    print("written to", outdir)


if __name__ == "__main__":
    main()
