#!/usr/bin/env python3
"""Regenerates MANIFEST.json from the table below (author's convenience)."""
import json
import os

ROOT = os.path.dirname(os.path.dirname(os.path.abspath(__file__)))

TB = ("CPython, NumPy, JAX/XLA (CPU), Flax NNX, Gymnasium, Orbax; the monitor's "
      "own reference model (a few lines, cross-checked by deliberate breaks)")

CHECKS = {
    "C02": dict(
        technique="runtime monitoring: lock-step list-FIFO reference model over "
                  "id-tagged histories + icontract invariants on the real classes "
                  "+ stub generator forcing every slot",
        text="Exploration. Thousands of generated add/sample/select-task histories "
             "are run through the real buffer classes while a list-based FIFO "
             "reference and icontract invariants watch every call; every field "
             "value carries the transition id so each sampled row names its "
             "source. Held = no divergence on the histories explored, not a proof.",
        ref="DESIGN.md §5 C02",
    ),
    "C04": dict(
        technique="runtime monitoring: every admissible window sampled through the "
                  "public API after every add (stub generator), checked against "
                  "(episode,t,id) tags embedded in the stored values; reduced view "
                  "vs full view",
        text="Exploration plus bounded enumeration. Random histories and all "
             "histories of <=3 (quick) / <=4 (thorough) episodes of length <=3 are "
             "added to the real subtrajectory buffers; after each add every "
             "admissible start is sampled and every returned window is checked row "
             "by row up to its first terminated step. Held = no bad window among "
             "those observed.",
        ref="DESIGN.md §5 C04",
    ),
    "C08": dict(
        technique="runtime monitoring: shadow priority vector + exact float64 "
                  "cumulative-interval oracle for chosen uniform variates (stub "
                  "generator), state comparison after every operation, empirical "
                  "frequencies (6 sigma) under a real generator",
        text="Exploration. Histories of add/sample/update/reset on LAP, the "
             "stratified PER buffer, the masked subtrajectory PER buffer and the "
             "multi-task wrapper; each returned index is compared with the index "
             "whose cumulative-priority interval contains the chosen variate "
             "(midpoints, interval ends, 2^-53, 1-2^-53).",
        ref="DESIGN.md §5 C08",
    ),
    "C18": dict(
        technique="runtime monitoring: float64 reference oracles on the real "
                  "functions over boundary-heavy generated inputs; bitwise "
                  "perturbation oracle for masked rows",
        text="Exploration of the numeric blocks on bin edges, extremes, |e|=delta, "
             "masked rows, near-zero vectors, non-integral schedule spans.",
        ref="DESIGN.md §5 C18",
    ),
    "C15": dict(
        technique="runtime monitoring: icontract post-conditions (with OLD "
                  "snapshots) on the real assessment function + statement-level "
                  "reference model + conservation ledger over enumerated histories; "
                  "in-loop event-log checker on train_td7 with rebound inner "
                  "routines",
        text="Bounded enumeration plus exploration: all (length, return) histories "
             "of <=3/<=4 episodes x windows x thresholds and random long ones are "
             "fed to the real assessment function under contracts and a reference; "
             "real train_td7 runs on scripted environments are checked for "
             "released == executed iterations, consecutive iteration numbers and "
             "checkpoint copies only with the flag.",
        ref="DESIGN.md §5 C15",
    ),
    "C20": dict(
        technique="runtime monitoring: list-based reference for the recording "
                  "loggers; floor(step/i) crossing reference for checkpoint cadence; "
                  "every listed checkpoint restored and matched to its record",
        text="Exploration over call histories of the real loggers and checkpointers "
             "(Orbax saves to a scratch directory that the check removes).",
        ref="DESIGN.md §5 C20",
    ),
    "C01": dict(
        technique="runtime monitoring: offline checker over the totally ordered "
                  "event log (recording scripted environment, recording buffer "
                  "subclasses, rebound acting/update routines, jax.debug.callback "
                  "for traced acting observations) of real training runs",
        text="Exploration. Every training routine is run for 40-120 steps on a "
             "scripted recording environment whose observations encode (env, "
             "episode, t); each transition handed over for learning and each "
             "observation a policy/planner is conditioned on is compared with "
             "the environment log entry of the same step.",
        ref="DESIGN.md §5 C01",
    ),
    "C11": dict(
        technique="runtime monitoring: environment-log counting against a "
                  "per-routine contract table, StepAfterEnd trap in the "
                  "environment, parameter snapshots at every step for the warm-up "
                  "clause, recording task selectors, D-UCB recomputation oracle",
        text="Exploration over budgets, starting counts, episode limits, scripts "
             "and schedulers; the oracle counts reset/step events of a recording "
             "environment that raises when stepped after an episode end.",
        ref="DESIGN.md §5 C11",
    ),
    "C07": dict(
        technique="runtime monitoring: float64 recurrence references + bitwise "
                  "perturbation (non-interference) oracles on the real functions; "
                  "PPO advantages captured at the loss boundary of the real update "
                  "(rebound ppo_loss + ordered jax.debug.callback) fed by the real "
                  "collector on a scripted vector environment",
        text="Exploration over reward/value/termination sequences, environments x "
             "rollout lengths and subtrajectory horizons; estimates are re-computed "
             "after perturbing data that must not matter and compared bitwise.",
        ref="DESIGN.md §5 C07",
    ),
    "C14": dict(
        technique="runtime monitoring: NumPy reference oracle on every call of the "
                  "real (jitted) update functions, driven directly and rebound "
                  "inside the real training loops on a tabular scripted "
                  "environment; bitwise check of all untouched entries; empirical "
                  "model recomputed from the environment log",
        text="Exploration over tables, transitions and histories (ties, "
             "terminated transitions, repeated visits, stochastic successors).",
        ref="DESIGN.md §5 C14",
    ),
    "C12": dict(
        technique="runtime monitoring: differential oracle - the real loss / "
                  "gradient routines versus independently written JAX reference "
                  "objectives evaluated on the same real modules (values and "
                  "gradient leaves), sign oracle for the temperature step",
        text="Exploration over batches, weights of both signs, clip ranges, heads, "
             "critic output shapes and batch sizes (N=1: same value or loud "
             "rejection).",
        ref="DESIGN.md §5 C12",
    ),
    "C13": dict(
        technique="runtime monitoring: closed-form float64 oracles on the public "
                  "head API incl. shape sweep and extreme parameters, "
                  "standardised-noise invariance across heads for one key; in-loop "
                  "event-log checker (one action source per step, greedy result "
                  "maximises the current estimate, 6-sigma exploration band)",
        text="Exploration over heads x shapes x extreme parameters, greedy "
             "policies with ties, and real DQN-family / tabular training runs.",
        ref="DESIGN.md §5 C13",
    ),
    "C17": dict(
        technique="runtime monitoring: cross-path consistency oracle (four public "
                  "prediction paths on the same inputs), float64 closed forms, "
                  "multiset-inclusion checker over index tensors observed at the "
                  "rebound bootstrap / train_epoch inside train_ensemble with NaN "
                  "poisoning of every row the index tensor does not name (data "
                  "sets up to 140000 rows), "
                  "statistical per-dimension spread of ts_inf particles, "
                  "differential test of the reward model against Pendulum-v1",
        text="Exploration over ensemble sizes, output dimensions, vector/batch "
             "inputs, extreme raw log-variances, data-set and batch sizes.",
        ref="DESIGN.md §5 C17",
    ),
    "C16": dict(
        technique="runtime monitoring: ask/tell loop through the real optimiser "
                  "functions with a reference ledger of every evaluated candidate; "
                  "invariants asserted after every tell / update; round-trip "
                  "identity oracle; CEM elite-set oracle accepting any valid set "
                  "under ties; in-loop best-fitness vs environment log",
        text="Exploration over dimensions, population sizes, fitness sequences "
             "(ties, non-finite, scale), both covariance updates, architectures, "
             "CEM bounds / means on the boundary / variances.",
        ref="DESIGN.md §5 C16",
    ),
    "C19": dict(
        technique="runtime monitoring: save-at-every-prefix differential oracle - "
                  "original and reloaded object driven by the same continuation "
                  "and compared bitwise after every operation (state, sampled "
                  "batches with equally seeded generators, one optimiser step)",
        text="Exploration over buffer classes x reachable states x save points x "
             "continuations, and module types x save paths (pickle helper, Orbax "
             "checkpoint written by the checkpointing logger).",
        ref="DESIGN.md §5 C19",
    ),
    "C06": dict(
        technique="runtime monitoring: per-leaf float64 law oracle on the real "
                  "update functions; storage-identity probes on targets created "
                  "by train_*; in-loop snapshot-pair checker (every target change "
                  "between consecutive parameter snapshots must satisfy the law "
                  "w.r.t. the online snapshot) plus cadence oracle",
        text="Exploration over architectures x tau, and real training runs of the "
             "nine routines that maintain targets with varied delays.",
        ref="DESIGN.md §5 C06",
    ),
    "C10": dict(
        technique="runtime monitoring: bounds / clip / standardised-noise oracles "
                  "on the real action samplers and tanh policies with hostile "
                  "boxes and network outputs, including families of samplers "
                  "made in one process that differ in one attribute; in-loop check of every action the "
                  "recording environment receives and of CEM candidates exported "
                  "from the rebound planner sampler",
        text="Exploration over boxes (asymmetric, tiny, huge), noise / clip "
             "settings, keys, and real DDPG/TD3/TD3+LAP/TD7/MR.Q/PETS runs.",
        ref="DESIGN.md §5 C10",
    ),
    "C03": dict(
        technique="runtime monitoring: float64 reference oracle built from the "
                  "monitor's own forward passes through the same real modules; "
                  "metamorphic oracles on the real loss (batch permutation, "
                  "terminated-row successor swap compared bitwise, zero gradient "
                  "into target modules and bootstrap inputs, 2-row decomposition, "
                  "batch size 1)",
        text="Exploration over losses x shapes x termination patterns x discount "
             "factors x parameter scales with independently initialised online "
             "and target networks.",
        ref="DESIGN.md §5 C03",
    ),
    "C05": dict(
        technique="runtime monitoring: bitwise before/after comparison of every "
                  "module and optimizer reachable from each real update routine; "
                  "in-loop attribution of parameter changes between consecutive "
                  "snapshots to the routine that ran in that segment",
        text="Exploration over all update routines with random batches and "
             "independently initialised modules, and real training traces of ten "
             "off-policy routines.",
        ref="DESIGN.md §5 C05",
    ),
    "C09": dict(
        technique="runtime monitoring: replay-with-perturbation non-interference "
                  "test - three fresh processes per configuration (equal seeds "
                  "with scrambled PYTHONHASHSEED / global RNG state / start time, "
                  "and seed+1), canonical digests compared field by field; "
                  "the second process additionally runs and discards another "
                  "training call first (process history), gets its uninitialised "
                  "np.empty memory filled with another value (sanitizer-style "
                  "poisoning) and a differently aligned observation buffer; "
                  "tripwire on global RNG calls from repository frames",
        text="Exploration over every training routine on scripted and seeded "
             "Gymnasium environments with settings that exercise learning.",
        ref="DESIGN.md §5 C09",
    ),
}

NOT_YET = {}


def main():
    props = [json.loads(l) for l in open(os.path.join(ROOT, "properties.jsonl"))]
    checks = []
    na = []
    for p in props:
        pid = p["id"]
        if pid in CHECKS:
            c = CHECKS[pid]
            checks.append({
                "property_id": pid,
                "quick_cmd": f"./check {pid} --tier quick",
                "thorough_cmd": f"./check {pid} --tier thorough",
                "evidence_file": f"/verif/evidence/{pid}.json",
                "replay_cmd_template": f"./check {pid} --replay {{path}}",
                "engine": "vf",
                "level_claimed": {
                    "category": "exploration",
                    "text": c["text"],
                    "design_ref": c["ref"],
                },
                "level_note": c.get("note", TB),
                "technique": c["technique"],
            })
        else:
            na.append({
                "property_id": pid,
                "reason": NOT_YET.get(
                    pid, "monitor designed (DESIGN.md §5) but not built yet in "
                         "this revision; the technique applies"),
            })
    man = {
        "version": 1,
        "setup_cmd": "/venv/bin/python -c \"import sys; sys.path.insert(0, '/verif'); "
                     "from vf.core import ensure_deps; ensure_deps()\"",
        "hooks": {
            "guard": "RL_BLOX_VERIF",
            "enable": "no source hooks: monitors attach from outside (recording "
                      "environment/logger/buffer arguments, rebinding of module "
                      "globals, jax.debug.callback, icontract on subclasses); the "
                      "checks export RL_BLOX_VERIF=1 for their workers only",
            "baseline_off_cmd": "cd /repo && /venv/bin/python -m pytest -ra -q "
                                "-p no:cacheprovider --timeout=900 "
                                "--continue-on-collection-errors",
            "source_commits": [],
            "add_only": True,
        },
        "engines": [{
            "name": "vf",
            "path": "/verif/vf",
            "serves_properties": [c["property_id"] for c in checks],
            "kind_free_text": "runtime monitoring harness: seeded workload "
                              "generators, recording environments/loggers/buffers, "
                              "reference-model and invariant oracles, subprocess "
                              "runner, evidence writer",
        }],
        "checks": checks,
        "not_applicable": na,
        "notes": "Exit codes: 0 held on everything explored (KNOWN-FINDING lines "
                 "possible), 1 VIOLATION, 2 INCONCLUSIVE (monitor not reached / "
                 "harness error). Known findings: /verif/known_findings.json.",
    }
    with open(os.path.join(ROOT, "MANIFEST.json"), "w") as f:
        json.dump(man, f, indent=1)
    print(f"{len(checks)} checks, {len(na)} not claimed")


if __name__ == "__main__":
    main()
