#!/bin/sh
# usage: tools/sweep.sh <tier> <seed> [ids...]   (author's tool: runs checks, keeps evidence out of ./evidence)
tier=$1; seed=$2; shift 2
ids="$@"; [ -z "$ids" ] && ids="C01 C02 C03 C04 C05 C06 C07 C08 C09 C10 C11 C12 C13 C14 C15 C16 C17 C18 C19 C20"
cd "$(dirname "$0")/.."
mkdir -p _sweep
for p in $ids; do
  out=$(VERIF_SEED=$seed VERIF_EVIDENCE_DIR=$PWD/_sweep/ev VERIF_REPLAY_DIR=$PWD/_sweep/rp ./check $p --tier $tier 2>&1)
  code=$?
  echo "tier=$tier seed=$seed $p exit=$code $(echo "$out" | grep -E 'wall=' | sed 's/.*cases=/cases=/')"
  if [ $code -ne 0 ]; then echo "$out" | grep -E "VIOL|key=|INCONC|KNOWN" | head -8; fi
done
echo SWEEP-DONE
