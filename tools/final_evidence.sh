#!/bin/sh
# author tool: regenerate ./evidence with the default seed (quick tier) and validate
cd "$(dirname "$0")/.."
rc=0
for p in C01 C02 C03 C04 C05 C06 C07 C08 C09 C10 C11 C12 C13 C14 C15 C16 C17 C18 C19 C20; do
  out=$(./check $p --tier quick 2>&1); code=$?
  echo "$p exit=$code $(echo "$out" | grep -E 'wall=' | sed 's/.*cases=/cases=/')"
  [ $code -ne 0 ] && { rc=1; echo "$out" | grep -E "VIOL|key=|INCONC" | head -5; }
done
python3-vt - <<'PY'
import json, jsonschema, glob
sch=json.load(open('/root/.vp/EVIDENCE.schema.json'))
for f in sorted(glob.glob('/verif/evidence/C*.json')):
    jsonschema.validate(json.load(open(f)), sch)
print("evidence files valid:", len(glob.glob('/verif/evidence/C*.json')))
m=json.load(open('/verif/MANIFEST.json')); jsonschema.validate(m, json.load(open('/root/.vp/MANIFEST.schema.json'))); print("manifest valid")
PY
exit $rc
