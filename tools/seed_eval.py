#!/usr/bin/env python3
"""Confirm an independently written property-breaking change and record it.

  tools/seed_eval.py <src_dir> <name> <property> [--checks C01,C05] [--no-tests]

<src_dir> holds patch.diff, demo.py, meta.json (written by a sub-agent in its
own scratch worktree).  In a fresh scratch worktree of /repo (outside /repo and
/verif, removed afterwards) this tool confirms that
  (1) the demonstration passes on the unchanged tree,
  (2) the patch applies, the package still imports,
  (3) the demonstration fails with the patch,
  (4) the repository's own test suite still passes with the patch,
then runs the given checks (default: the property's own) against the patched
copy and stores everything under /verif/seeded/<name>/.
/repo itself is never modified.
"""
import json
import os
import shutil
import subprocess
import sys
import tempfile
import time

ROOT = os.path.dirname(os.path.dirname(os.path.abspath(__file__)))
PY = "/venv/bin/python"


def sh(cmd, **kw):
    return subprocess.run(cmd, capture_output=True, text=True, **kw)


def main():
    src, name, prop = sys.argv[1:4]
    checks = [prop]
    run_tests = True
    rest = sys.argv[4:]
    if "--checks" in rest:
        checks = rest[rest.index("--checks") + 1].split(",")
    if "--no-tests" in rest:
        run_tests = False
    base = "HEAD"
    if "--base" in rest:  # commit of /repo the change was written against
        base = rest[rest.index("--base") + 1]
    wt = tempfile.mkdtemp(prefix="seedchk-")
    os.rmdir(wt)
    out = {"property": prop, "name": name, "confirmed_at": time.strftime("%F %T")}
    try:
        r = sh(["git", "-C", "/repo", "worktree", "add", "-q", "--detach", wt, base])
        out["repo_base"] = sh(["git", "-C", wt, "log", "--format=%h", "-1"]
                              ).stdout.strip()
        assert r.returncode == 0, r.stderr
        env = dict(os.environ, PYTHONPATH=wt, JAX_PLATFORMS="cpu", TQDM_DISABLE="1")
        demo = os.path.join(src, "demo.py")
        r0 = sh([PY, demo], cwd="/tmp", env=env, timeout=1800)
        out["demo_on_unchanged_tree_exit"] = r0.returncode
        rp = sh(["git", "-C", wt, "apply", os.path.join(src, "patch.diff")])
        out["patch_applies"] = rp.returncode == 0
        if rp.returncode:
            out["patch_error"] = rp.stderr[-500:]
        r1 = sh([PY, demo], cwd="/tmp", env=env, timeout=1800)
        out["demo_with_patch_exit"] = r1.returncode
        out["demo_with_patch_tail"] = (r1.stdout + r1.stderr).strip().splitlines()[-4:]
        if run_tests and rp.returncode == 0:
            rt = sh([PY, "-m", "pytest", "-q", "-p", "no:cacheprovider", "--no-cov",
                     "-n", "8", "--timeout=900", "tests"], cwd=wt, env=env,
                    timeout=3000)
            tail = (rt.stdout.strip().splitlines() or [""])[-1]
            out["repo_tests_with_patch"] = tail
            out["repo_tests_exit"] = rt.returncode
        out["confirmed"] = bool(out["demo_on_unchanged_tree_exit"] == 0
                                and out["patch_applies"]
                                and out["demo_with_patch_exit"] != 0
                                and out.get("repo_tests_exit", 0) == 0)
        # run our checks against the patched copy
        res = {}
        envc = dict(os.environ, VERIF_REPO=wt,
                    VERIF_EVIDENCE_DIR=os.path.join(wt, "_ev"),
                    VERIF_REPLAY_DIR=os.path.join(wt, "_rp"))
        for c in checks:
            t0 = time.time()
            rc = sh([os.path.join(ROOT, "check"), c, "--tier",
                     os.environ.get("SEED_TIER", "quick")], env=envc, timeout=3600)
            keys = [l.strip()[:300] for l in rc.stdout.splitlines()
                    if l.startswith(("  key=", "INCONCLUSIVE", "KNOWN"))]
            res[c] = {"exit": rc.returncode, "wall_s": round(time.time() - t0, 1),
                      "lines": keys[:6]}
        out["checks"] = res
        out["caught_by"] = [c for c, v in res.items() if v["exit"] == 1]
    finally:
        sh(["git", "-C", "/repo", "worktree", "remove", "--force", wt])
        shutil.rmtree(wt, ignore_errors=True)
    dst = os.path.join(ROOT, "seeded", name)
    os.makedirs(dst, exist_ok=True)
    for f in ("patch.diff", "demo.py"):
        shutil.copy(os.path.join(src, f), os.path.join(dst, f))
    meta = {}
    try:
        meta = json.load(open(os.path.join(src, "meta.json")))
    except Exception as e:  # noqa: BLE001
        meta = {"author_meta_unreadable": str(e)}
    meta["verification"] = out
    json.dump(meta, open(os.path.join(dst, "meta.json"), "w"), indent=1)
    print(json.dumps(out, indent=1))


if __name__ == "__main__":
    main()
