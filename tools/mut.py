#!/usr/bin/env python3
"""Author's mutation tool (not a registered check).

  tools/mut.py <ID>[,<ID>...] <relfile> <old> <new> [<relfile> <old> <new> ...]
  tools/mut.py <ID>[,<ID>...] --patch file.diff

Copies /repo/rl_blox to a scratch dir, applies the edit(s), runs the quick
check(s) against the copy (VERIF_REPO), prints exit code and VIOLATION keys,
and removes the copy.  /repo itself is never touched.
"""
import hashlib, os, shutil, subprocess, sys, tempfile

ROOT = os.path.dirname(os.path.dirname(os.path.abspath(__file__)))

def main():
    ids = sys.argv[1].split(",")
    args = sys.argv[2:]
    tier = os.environ.get("MUT_TIER", "quick")
    tmp = tempfile.mkdtemp(prefix="vfmut-")
    try:
        shutil.copytree("/repo/rl_blox", os.path.join(tmp, "rl_blox"),
                        ignore=shutil.ignore_patterns("__pycache__"))
        if args[0] == "--patch":
            r = subprocess.run(["patch", "-p1", "-d", tmp, "-i", os.path.abspath(args[1])],
                               capture_output=True, text=True)
            if r.returncode:
                print("PATCH FAILED", r.stdout, r.stderr); return 3
        else:
            for i in range(0, len(args), 3):
                f, old, new = args[i:i+3]
                if os.path.isabs(f) or ".." in f.split(os.sep):
                    print(f"EDIT REFUSED: {f!r} must be relative to rl_blox/"); return 3
                p = os.path.join(tmp, "rl_blox", f)
                assert os.path.realpath(p).startswith(os.path.realpath(tmp) + os.sep)
                s = open(p).read()
                if s.count(old) != 1:
                    print(f"EDIT FAILED: {old!r} occurs {s.count(old)} times in {f}"); return 3
                open(p, "w").write(s.replace(old, new))
        env = dict(os.environ, VERIF_REPO=tmp, VERIF_EVIDENCE_DIR=os.path.join(tmp, "ev"),
                   VERIF_REPLAY_DIR=os.path.join(tmp, "rp"))
        rc_all = 0
        for pid in ids:
            r = subprocess.run([os.path.join(ROOT, "check"), pid, "--tier", tier],
                               env=env, capture_output=True, text=True)
            lines = [l for l in r.stdout.splitlines()
                     if l.startswith(("VIOLATION", "  key=", "INCONCLUSIVE", "KNOWN"))]
            print(f"== {pid}: exit={r.returncode}")
            for l in lines[:12]:
                print("   ", l[:300])
            if r.returncode not in (0, 1, 2):
                print(r.stdout[-1500:], r.stderr[-1500:])
            rc_all = max(rc_all, r.returncode)
        return rc_all
    finally:
        shutil.rmtree(tmp, ignore_errors=True)

if __name__ == "__main__":
    sys.exit(main())
