#!/usr/bin/env python3
"""Re-run the current checks against every stored seeded change.

  tools/seed_recheck.py [name ...]

For each /verif/seeded/<name>/ a scratch worktree of /repo at the commit the
change was written against is created (outside /repo and /verif), the patch is
applied, the property's quick check (plus any other check that caught it
before) is run against that copy, the worktree is removed, and the result is
stored in meta.json under verification.recheck.  /repo is never modified.
"""
import json
import os
import shutil
import subprocess
import sys
import tempfile
import time

ROOT = os.path.dirname(os.path.dirname(os.path.abspath(__file__)))
DEFAULT_BASE = {"a": "90f5b86", "b": "90f5b86"}


def sh(cmd, **kw):
    return subprocess.run(cmd, capture_output=True, text=True, **kw)


def main():
    names = sys.argv[1:] or sorted(os.listdir(os.path.join(ROOT, "seeded")))
    summary = []
    for name in names:
        d = os.path.join(ROOT, "seeded", name)
        meta = json.load(open(os.path.join(d, "meta.json")))
        ver = meta.setdefault("verification", {})
        prop = ver.get("property") or name.split("-")[0]
        base = ver.get("repo_base") or DEFAULT_BASE.get(name[-1], "HEAD")
        checks = sorted(set([prop] + list(ver.get("caught_by", []))))
        wt = tempfile.mkdtemp(prefix="seedre-")
        os.rmdir(wt)
        try:
            r = sh(["git", "-C", "/repo", "worktree", "add", "-q", "--detach", wt, base])
            assert r.returncode == 0, r.stderr
            rp = sh(["git", "-C", wt, "apply", os.path.join(d, "patch.diff")])
            assert rp.returncode == 0, rp.stderr
            env = dict(os.environ, VERIF_REPO=wt,
                       VERIF_EVIDENCE_DIR=os.path.join(wt, "_ev"),
                       VERIF_REPLAY_DIR=os.path.join(wt, "_rp"))
            res = {}
            for c in checks:
                rc = sh([os.path.join(ROOT, "check"), c, "--tier", "quick"], env=env,
                        timeout=3600)
                keys = [l.strip()[4:].split(":")[0] for l in rc.stdout.splitlines()
                        if l.startswith("  key=")]
                res[c] = {"exit": rc.returncode, "keys": keys[:5]}
            ver["recheck"] = {"at": time.strftime("%F %T"), "base": base,
                              "checks": res,
                              "caught_by": [c for c, v in res.items() if v["exit"] == 1]}
            summary.append((name, ver["recheck"]["caught_by"]))
        finally:
            sh(["git", "-C", "/repo", "worktree", "remove", "--force", wt])
            shutil.rmtree(wt, ignore_errors=True)
        json.dump(meta, open(os.path.join(d, "meta.json"), "w"), indent=1)
        print(name, "caught by", ver["recheck"]["caught_by"] or "NOTHING", flush=True)
    missed = [n for n, c in summary if not c]
    print("rechecked", len(summary), "missed:", missed)
    return 1 if missed else 0


if __name__ == "__main__":
    sys.exit(main())
