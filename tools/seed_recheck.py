#!/usr/bin/env python3
"""Re-run the current checks against every stored seeded change.

  tools/seed_recheck.py [-j N] [name ...]

For each /verif/seeded/<name>/ a scratch worktree of /repo is created (outside
/repo and /verif): at the current HEAD if the patch still applies there,
otherwise at the commit the change was written against (then defects repaired
later are present in that copy as well and may be what the check reports -
recorded as on_base).  The property's quick check (plus any other check that
caught the change before) is run against that copy, the worktree is removed,
and the result is stored in meta.json under verification.recheck.  /repo is
never modified.
"""
import json
import os
import shutil
import subprocess
import sys
import tempfile
import time
from concurrent.futures import ThreadPoolExecutor

ROOT = os.path.dirname(os.path.dirname(os.path.abspath(__file__)))
DEFAULT_BASE = {"a": "90f5b86", "b": "90f5b86"}


def sh(cmd, **kw):
    return subprocess.run(cmd, capture_output=True, text=True, **kw)


def one(name):
    d = os.path.join(ROOT, "seeded", name)
    meta = json.load(open(os.path.join(d, "meta.json")))
    ver = meta.setdefault("verification", {})
    prop = ver.get("property") or name.split("-")[0]
    base = ver.get("repo_base") or DEFAULT_BASE.get(name[-1], "HEAD")
    checks = sorted(set([prop] + list(ver.get("caught_by", []))))
    patch = os.path.join(d, "patch.diff")
    res, used = {}, None
    # a change that a later repair of the repository made harmless is
    # re-checked where it still bites: on the commit it was written against
    order = (base,) if ver.get("neutralised_by_fix") else ("HEAD", base)
    for commit in order:
        wt = tempfile.mkdtemp(prefix="seedre-")
        os.rmdir(wt)
        try:
            r = sh(["git", "-C", "/repo", "worktree", "add", "-q", "--detach", wt,
                    commit])
            if r.returncode:
                continue
            if sh(["git", "-C", wt, "apply", patch]).returncode:
                continue
            used = commit
            env = dict(os.environ, VERIF_REPO=wt, VERIF_WORKERS="4",
                       VERIF_EVIDENCE_DIR=os.path.join(wt, "_ev"),
                       VERIF_REPLAY_DIR=os.path.join(wt, "_rp"))
            for c in checks:
                rc = sh([os.path.join(ROOT, "check"), c, "--tier", "quick"], env=env,
                        timeout=3600)
                keys = [l.strip()[4:].split(":")[0] for l in rc.stdout.splitlines()
                        if l.startswith("  key=")]
                res[c] = {"exit": rc.returncode, "keys": keys[:5]}
            break
        finally:
            sh(["git", "-C", "/repo", "worktree", "remove", "--force", wt])
            shutil.rmtree(wt, ignore_errors=True)
    ver["recheck"] = {"at": time.strftime("%F %T"), "applied_on": used,
                      "on_base": used not in (None, "HEAD"), "checks": res,
                      "caught_by": [c for c, v in res.items() if v["exit"] == 1]}
    json.dump(meta, open(os.path.join(d, "meta.json"), "w"), indent=1)
    print(name, "on", used, "caught by", ver["recheck"]["caught_by"] or "NOTHING",
          {c: v["keys"][:1] for c, v in res.items()}, flush=True)
    return name, ver["recheck"]["caught_by"], used


def main():
    args = sys.argv[1:]
    jobs = 3
    if args[:1] == ["-j"]:
        jobs = int(args[1])
        args = args[2:]
    names = args or sorted(os.listdir(os.path.join(ROOT, "seeded")))
    with ThreadPoolExecutor(jobs) as ex:
        summary = list(ex.map(one, names))
    missed = [n for n, c, _ in summary if not c]
    print("rechecked", len(summary), "missed:", missed,
          "on base:", [n for n, _, u in summary if u not in (None, "HEAD")])
    return 1 if missed else 0


if __name__ == "__main__":
    sys.exit(main())
