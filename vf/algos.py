"""Builders: one per training routine.  Each returns a Run whose .call()
executes the *real* train_* function on recording objects with tiny networks.
"""

from __future__ import annotations

import numpy as np

from vf.loop import (
    ScriptEnv, TabularScriptEnv, make_rec_logger, rec_buffer_class,
)

H = [8]  # hidden nodes of every tiny network


class Run:
    def __init__(self, name, trace, cfg):
        self.name, self.trace, self.cfg = name, trace, cfg
        self.env = None
        self.envs = []
        self.buffer = None
        self.logger = None
        self.kwargs = {}
        self.fn = None
        self.args = ()
        self.result = None
        self.counter_field = None
        self.patch_modules = []  # module names for rebinding
        self.extra = {}

    def call(self):
        self.result = self.fn(*self.args, **self.kwargs)
        from vf.loop import flush_effects
        flush_effects()
        return self.result

    def returned_counter(self):
        if self.counter_field is None or self.result is None:
            return None
        return int(getattr(self.result, self.counter_field))


def _logger(run):
    if run.cfg.get("logger", True):
        run.logger = make_rec_logger(run.trace, run.cfg.get("snap_on_log", True))
    return run.logger


class RecGymEnv:
    """Factory for a recording wrapper around a seeded Gymnasium environment."""

    @staticmethod
    def make(trace, env_id, max_steps=None, wrap=None):
        import gymnasium as gym

        class Rec(gym.Wrapper):
            def reset(self, **kw):
                out = self.env.reset(**kw)
                trace.ev("reset", env=env_id, seed=kw.get("seed"),
                         obs=np.array(out[0], copy=True))
                return out

            def step(self, action):
                out = self.env.step(action)
                trace.n_steps += 1
                trace.ev("step", env=env_id, action=np.array(action, copy=True),
                         obs=np.array(out[0], copy=True), reward=float(out[1]),
                         terminated=bool(out[2]), truncated=bool(out[3]), snap=None)
                return out

        kw = {} if max_steps is None else {"max_episode_steps": max_steps}
        env = gym.make(env_id, **kw)
        if wrap == "rescale":
            # a wrapper that defines its own action space object
            env = gym.wrappers.RescaleAction(env, -1.0, 1.0)
        return Rec(env)


def _gym_env(run):
    c = run.cfg
    env = RecGymEnv.make(run.trace, c["gym_env"], c.get("gym_max_steps"),
                         c.get("gym_wrap"))
    env.action_space.seed(c["seed"])
    run.env = env
    run.envs = [env]
    return env


def _outer_box(env, trace, low, high):
    """Action wrapper that defines its own (different) action space and maps it
    affinely onto the inner one; records what the training routine passed."""
    import gymnasium as gym

    class OuterBox(gym.ActionWrapper):
        def __init__(self, env):
            super().__init__(env)
            self.action_space = gym.spaces.Box(
                np.asarray(low, np.float32), np.asarray(high, np.float32))

        def action(self, a):
            trace.ev("outer_action", action=np.array(a, copy=True))
            lo, hi = self.action_space.low, self.action_space.high
            ilo, ihi = self.env.action_space.low, self.env.action_space.high
            frac = (np.asarray(a, np.float64) - lo) / (hi - lo)
            return np.clip(ilo + frac * (ihi - ilo), ilo, ihi).astype(np.float32)

    return OuterBox(env)


def _box_env(run, **kw):
    c = run.cfg
    if c.get("gym_env"):
        return _gym_env(run)
    env = ScriptEnv(run.trace, c["script"], obs_dim=c.get("obs_dim", 3),
                    low=c.get("low", [-1.0]), high=c.get("high", [1.0]),
                    snap_on_step=c.get("snap_on_step", True), **kw)
    env.int_first = bool(c.get("int_first"))
    run.envs = [env]
    if c.get("outer_box"):
        env = _outer_box(env, run.trace, *c["outer_box"])
    run.env = env
    return env


def _disc_env(run):
    c = run.cfg
    if c.get("gym_env"):
        return _gym_env(run)
    env = ScriptEnv(run.trace, c["script"], obs_dim=c.get("obs_dim", 3),
                    n_actions=c.get("n_actions", 3),
                    snap_on_step=c.get("snap_on_step", True))
    env.int_first = bool(c.get("int_first"))
    run.env = env
    run.envs = [env]
    return env


def _common(c, *names):
    out = {}
    for n in names:
        if n in c and c[n] is not None:
            out[n] = c[n]
    return out


# ------------------------------------------------------------- DQN family
def _dqn_like(run, which):
    import optax
    from flax import nnx

    from rl_blox.blox import replay_buffer as rb
    from rl_blox.blox.function_approximator.mlp import MLP

    c, tr = run.cfg, run.trace
    env = _disc_env(run)
    env.action_space.seed(c["seed"])
    q = MLP(env.observation_space.shape[0], int(env.action_space.n), H, "relu",
            nnx.Rngs(c["seed"]))
    opt = nnx.Optimizer(q, optax.adam(c.get("lr", 1e-2)), wrt=nnx.Param)
    base = rb.PrioritizedReplayBuffer if which == "per" else rb.ReplayBuffer
    buf = rec_buffer_class(base, tr)(c.get("buffer_size", 1000),
                                     discrete_actions=True)
    run.buffer = buf
    tr.register("q", q)
    tr.register("q_opt", opt)
    kw = dict(q_net=q, env=env, replay_buffer=buf, optimizer=opt,
              batch_size=c.get("batch_size", 4),
              total_timesteps=c["total_timesteps"], gamma=c.get("gamma", 0.9),
              seed=c["seed"], logger=_logger(run),
              global_step=c.get("global_step", 0), progress_bar=False)
    if which != "dqn":
        kw.update(_common(c, "total_episodes", "update_frequency",
                          "target_update_frequency", "learning_starts"))
        if c.get("targets", "given") == "given":
            qt = nnx.clone(q)
            kw["q_target_net"] = qt
            tr.register("q_target", qt)
    if which == "per":
        kw.update(_common(c, "per_alpha", "per_beta"))
    return kw


def build_dqn(run):
    from rl_blox.algorithm import dqn
    run.kwargs = _dqn_like(run, "dqn")
    run.fn = dqn.train_dqn
    run.counter_field = "global_step"
    run.patch_modules = ["rl_blox.algorithm.dqn"]


def build_nature_dqn(run):
    from rl_blox.algorithm import nature_dqn
    run.kwargs = _dqn_like(run, "nature")
    run.fn = nature_dqn.train_nature_dqn
    run.counter_field = "global_step"
    run.patch_modules = ["rl_blox.algorithm.nature_dqn"]


def build_ddqn(run):
    from rl_blox.algorithm import ddqn
    run.kwargs = _dqn_like(run, "ddqn")
    run.fn = ddqn.train_ddqn
    run.counter_field = "global_step"
    run.patch_modules = ["rl_blox.algorithm.ddqn"]


def build_per(run):
    from rl_blox.algorithm import per
    run.kwargs = _dqn_like(run, "per")
    run.fn = per.train_ddqn_per
    run.counter_field = None
    run.patch_modules = ["rl_blox.algorithm.per"]


# ------------------------------------------------------------- DDPG / TD3
def _actor_critic_targets(run, st, names=("policy", "q")):
    from flax import nnx

    tr, c = run.trace, run.cfg
    kw = {}
    if c.get("targets", "given") == "given":
        for n in names:
            t = nnx.clone(getattr(st, n))
            kw[f"{n}_target"] = t
            tr.register(f"{n}_target", t)
    return kw


def build_ddpg(run):
    from rl_blox.algorithm import ddpg
    from rl_blox.blox import replay_buffer as rb

    c, tr = run.cfg, run.trace
    env = _box_env(run)
    st = ddpg.create_ddpg_state(env, policy_hidden_nodes=H, q_hidden_nodes=H,
                                policy_learning_rate=c.get("lr", 1e-2),
                                q_learning_rate=c.get("lr", 1e-2), seed=c["seed"])
    for n in ("policy", "policy_optimizer", "q", "q_optimizer"):
        tr.register(n, getattr(st, n))
    run.buffer = c.get("replay_buffer_obj") or rec_buffer_class(rb.ReplayBuffer, tr)(
        c.get("buffer_size", 1000))
    kw = dict(env=env, policy=st.policy, policy_optimizer=st.policy_optimizer,
              q=st.q, q_optimizer=st.q_optimizer, seed=c["seed"],
              total_timesteps=c["total_timesteps"], gamma=c.get("gamma", 0.9),
              tau=c.get("tau", 0.3), batch_size=c.get("batch_size", 4),
              exploration_noise=c.get("exploration_noise", 0.3),
              learning_starts=c.get("learning_starts", 10),
              replay_buffer=run.buffer, logger=_logger(run),
              global_step=c.get("global_step", 0), progress_bar=False)
    kw.update(_common(c, "total_episodes", "gradient_steps"))
    kw.update(_actor_critic_targets(run, st))
    run.kwargs = kw
    run.fn = ddpg.train_ddpg
    run.counter_field = "steps_trained"
    run.patch_modules = ["rl_blox.algorithm.ddpg"]
    run.extra["state"] = st


def build_td3(run, lap=False):
    from rl_blox.algorithm import td3, td3_lap
    from rl_blox.blox import replay_buffer as rb

    c, tr = run.cfg, run.trace
    env = _box_env(run)
    st = td3.create_td3_state(env, policy_hidden_nodes=H, q_hidden_nodes=H,
                              policy_learning_rate=c.get("lr", 1e-2),
                              q_learning_rate=c.get("lr", 1e-2), seed=c["seed"])
    for n in ("policy", "policy_optimizer", "q", "q_optimizer"):
        tr.register(n, getattr(st, n))
    base = rb.LAP if lap else rb.ReplayBuffer
    run.buffer = c.get("replay_buffer_obj") or rec_buffer_class(base, tr)(
        c.get("buffer_size", 1000))
    kw = dict(env=env, policy=st.policy, policy_optimizer=st.policy_optimizer,
              q=st.q, q_optimizer=st.q_optimizer, seed=c["seed"],
              total_timesteps=c["total_timesteps"], gamma=c.get("gamma", 0.9),
              tau=c.get("tau", 0.3), policy_delay=c.get("policy_delay", 2),
              batch_size=c.get("batch_size", 4),
              exploration_noise=c.get("exploration_noise", 0.3),
              noise_clip=c.get("noise_clip", 0.5),
              learning_starts=c.get("learning_starts", 10),
              replay_buffer=run.buffer, logger=_logger(run),
              global_step=c.get("global_step", 0), progress_bar=False)
    kw.update(_common(c, "gradient_steps"))
    if not lap:
        kw.update(_common(c, "total_episodes"))
    else:
        kw.update(_common(c, "target_policy_noise", "lap_alpha",
                          "lap_min_priority"))
    kw.update(_actor_critic_targets(run, st))
    run.kwargs = kw
    run.fn = td3_lap.train_td3_lap if lap else td3.train_td3
    run.counter_field = "global_step"
    run.patch_modules = ["rl_blox.algorithm.td3_lap" if lap
                         else "rl_blox.algorithm.td3"]
    run.extra["state"] = st


def build_td3_lap(run):
    build_td3(run, lap=True)


def build_sac(run):
    from flax import nnx

    from rl_blox.algorithm import sac
    from rl_blox.blox import replay_buffer as rb

    c, tr = run.cfg, run.trace
    env = _box_env(run)
    st = sac.create_sac_state(env, policy_hidden_nodes=H, q_hidden_nodes=H,
                              policy_learning_rate=c.get("lr", 1e-2),
                              q_learning_rate=c.get("lr", 1e-2), seed=c["seed"])
    ec = sac.EntropyControl(env, c.get("alpha", 0.2), c.get("autotune", True),
                            c.get("lr", 1e-2))
    for n in ("policy", "policy_optimizer", "q", "q_optimizer"):
        tr.register(n, getattr(st, n))
    if ec.autotune:
        tr.register("alpha", ec._alpha)
        tr.register("alpha_optimizer", ec.optimizer)
    run.buffer = c.get("replay_buffer_obj") or rec_buffer_class(rb.ReplayBuffer, tr)(
        c.get("buffer_size", 1000))
    kw = dict(env=env, policy=st.policy, policy_optimizer=st.policy_optimizer,
              q=st.q, q_optimizer=st.q_optimizer, seed=c["seed"],
              total_timesteps=c["total_timesteps"], gamma=c.get("gamma", 0.9),
              tau=c.get("tau", 0.3), batch_size=c.get("batch_size", 4),
              learning_starts=c.get("learning_starts", 10),
              policy_delay=c.get("policy_delay", 2),
              target_network_delay=c.get("target_network_delay", 1),
              autotune=c.get("autotune", True), entropy_control=ec,
              replay_buffer=run.buffer, logger=_logger(run),
              global_step=c.get("global_step", 0), progress_bar=False)
    kw.update(_common(c, "total_episodes"))
    if c.get("targets", "given") == "given":
        qt = nnx.clone(st.q)
        kw["q_target"] = qt
        tr.register("q_target", qt)
    run.kwargs = kw
    run.fn = sac.train_sac
    run.counter_field = "global_step"
    run.patch_modules = ["rl_blox.algorithm.sac"]
    run.extra["state"] = st
    run.extra["entropy_control"] = ec


def build_td7(run):
    from flax import nnx

    from rl_blox.algorithm import td7
    from rl_blox.blox import replay_buffer as rb

    c, tr = run.cfg, run.trace
    env = _box_env(run)
    st = td7.create_td7_state(
        env, n_embedding_dimensions=6, state_embedding_hidden_nodes=H,
        state_action_embedding_hidden_nodes=H, policy_sa_encoding_nodes=6,
        policy_hidden_nodes=H, q_sa_encoding_nodes=6, q_hidden_nodes=H,
        embedding_learning_rate=c.get("lr", 1e-2),
        policy_learning_rate=c.get("lr", 1e-2), q_learning_rate=c.get("lr", 1e-2),
        seed=c["seed"])
    for n in ("embedding", "embedding_optimizer", "actor", "actor_optimizer",
              "critic", "critic_optimizer"):
        tr.register(n, getattr(st, n))
    run.buffer = rec_buffer_class(rb.LAP, tr)(c.get("buffer_size", 1000))
    kw = dict(env=env, embedding=st.embedding,
              embedding_optimizer=st.embedding_optimizer, actor=st.actor,
              actor_optimizer=st.actor_optimizer, critic=st.critic,
              critic_optimizer=st.critic_optimizer, seed=c["seed"],
              total_timesteps=c["total_timesteps"], gamma=c.get("gamma", 0.9),
              target_delay=c.get("target_delay", 5),
              policy_delay=c.get("policy_delay", 2),
              exploration_noise=c.get("exploration_noise", 0.3),
              target_policy_noise=c.get("target_policy_noise", 0.2),
              noise_clip=c.get("noise_clip", 0.5),
              use_checkpoints=c.get("use_checkpoints", False),
              max_episodes_when_checkpointing=c.get(
                  "max_episodes_when_checkpointing", 3),
              steps_before_checkpointing=c.get("steps_before_checkpointing", 30),
              reset_weight=c.get("reset_weight", 0.9),
              batch_size=c.get("batch_size", 4),
              learning_starts=c.get("learning_starts", 10),
              replay_buffer=run.buffer, logger=_logger(run),
              global_step=c.get("global_step", 0), progress_bar=False)
    kw.update(_common(c, "total_episodes"))
    if c.get("targets", "given") == "given":
        at, ct = nnx.clone(st.actor), nnx.clone(st.critic)
        kw["actor_target"], kw["critic_target"] = at, ct
        tr.register("actor_target", at)
        tr.register("critic_target", ct)
    run.kwargs = kw
    run.fn = td7.train_td7
    run.counter_field = "global_step"
    run.patch_modules = ["rl_blox.algorithm.td7"]
    run.extra["state"] = st


def build_mrq(run):
    from flax import nnx

    from rl_blox.algorithm import mrq
    from rl_blox.blox import replay_buffer as rb

    c, tr = run.cfg, run.trace
    env = _box_env(run)
    st = mrq.create_mrq_state(
        env, policy_hidden_nodes=H, q_hidden_nodes=H, encoder_n_bins=9,
        encoder_zs_dim=6, encoder_za_dim=4, encoder_zsa_dim=6,
        encoder_hidden_nodes=H, policy_learning_rate=c.get("lr", 1e-2),
        q_learning_rate=c.get("lr", 1e-2), encoder_learning_rate=c.get("lr", 1e-2),
        seed=c["seed"])
    pwe = st.policy_with_encoder
    tr.register("encoder", pwe.encoder)
    tr.register("policy", pwe.policy)
    for n in ("encoder_optimizer", "policy_optimizer", "q", "q_optimizer"):
        tr.register(n, getattr(st, n))
    eh, qh = c.get("encoder_horizon", 2), c.get("q_horizon", 2)
    run.buffer = rec_buffer_class(rb.SubtrajectoryReplayBufferPER, tr)(
        c.get("buffer_size", 1000), horizon=max(eh, qh))
    kw = dict(env=env, policy_with_encoder=pwe,
              encoder_optimizer=st.encoder_optimizer,
              policy_optimizer=st.policy_optimizer, q=st.q,
              q_optimizer=st.q_optimizer, the_bins=st.the_bins, seed=c["seed"],
              total_timesteps=c["total_timesteps"], gamma=c.get("gamma", 0.9),
              target_delay=c.get("target_delay", 5),
              batch_size=c.get("batch_size", 4),
              exploration_noise=c.get("exploration_noise", 0.3),
              target_policy_noise=c.get("target_policy_noise", 0.2),
              noise_clip=c.get("noise_clip", 0.3),
              learning_starts=c.get("learning_starts", 10),
              encoder_horizon=eh, q_horizon=qh, replay_buffer=run.buffer,
              logger=_logger(run), global_step=c.get("global_step", 0),
              progress_bar=False)
    kw.update(_common(c, "total_episodes"))
    if c.get("targets", "given") == "given":
        pt, qt = nnx.clone(pwe), nnx.clone(st.q)
        kw["policy_with_encoder_target"], kw["q_target"] = pt, qt
        tr.register("encoder_target", pt.encoder)
        tr.register("policy_target", pt.policy)
        tr.register("q_target", qt)
    run.kwargs = kw
    run.fn = mrq.train_mrq
    run.counter_field = "global_step"
    run.patch_modules = ["rl_blox.algorithm.mrq"]
    run.extra["state"] = st


def build_pets(run):
    import jax.numpy as jnp

    from rl_blox.algorithm import pets
    from rl_blox.blox import replay_buffer as rb

    c, tr = run.cfg, run.trace
    env = _box_env(run)
    dm = pets.create_pets_state(env, seed=c["seed"], n_ensemble=2, hidden_nodes=H,
                                batch_size=4)
    tr.register("dynamics_model", dm.model)
    tr.register("dynamics_optimizer", dm.optimizer)
    run.buffer = rec_buffer_class(rb.ReplayBuffer, tr)(c.get("buffer_size", 1000))

    def reward_model(act, obs):
        return -jnp.sum(jnp.asarray(act) ** 2, axis=-1) + 0.0 * jnp.sum(
            jnp.asarray(obs), axis=-1)

    run.kwargs = dict(
        env=env, reward_model=reward_model, dynamics_model=dm, plan_horizon=2,
        n_particles=2, n_samples=10, n_opt_iter=1, seed=c["seed"],
        total_timesteps=c["total_timesteps"],
        learning_starts=c.get("learning_starts", 8),
        learning_starts_gradient_steps=2,
        n_steps_per_iteration=c.get("n_steps_per_iteration", 10),
        gradient_steps=1, replay_buffer=run.buffer, logger=_logger(run),
        progress_bar=False)
    run.fn = pets.train_pets
    run.counter_field = None
    run.patch_modules = ["rl_blox.algorithm.pets"]


# ------------------------------------------------------------- on-policy
def _pg_state(run, env, discrete):
    from rl_blox.algorithm import reinforce

    c = run.cfg
    if discrete:
        st = reinforce.create_policy_gradient_discrete_state(
            env, policy_hidden_nodes=H, value_network_hidden_nodes=H,
            policy_learning_rate=c.get("lr", 1e-2),
            value_network_learning_rate=c.get("lr", 1e-2), seed=c["seed"])
    else:
        st = reinforce.create_policy_gradient_continuous_state(
            env, policy_hidden_nodes=H, value_network_hidden_nodes=H,
            policy_learning_rate=c.get("lr", 1e-2),
            value_network_learning_rate=c.get("lr", 1e-2), seed=c["seed"])
    for n in ("policy", "policy_optimizer", "value_function",
              "value_function_optimizer"):
        run.trace.register(n, getattr(st, n))
    return st


def build_reinforce(run, ac=False):
    from rl_blox.algorithm import actor_critic, reinforce

    c = run.cfg
    discrete = c.get("discrete", False)
    env = _disc_env(run) if discrete else _box_env(run)
    st = _pg_state(run, env, discrete)
    run.kwargs = dict(
        env=env, policy=st.policy, policy_optimizer=st.policy_optimizer,
        value_function=st.value_function,
        value_function_optimizer=st.value_function_optimizer, seed=c["seed"],
        total_timesteps=c["total_timesteps"], gamma=c.get("gamma", 0.9),
        steps_per_update=c.get("steps_per_update", 10),
        train_after_episode=c.get("train_after_episode", False),
        logger=_logger(run), progress_bar=False)
    run.fn = actor_critic.train_ac if ac else reinforce.train_reinforce
    run.counter_field = None
    run.patch_modules = ["rl_blox.algorithm.actor_critic" if ac
                         else "rl_blox.algorithm.reinforce"]
    run.extra["state"] = st


def build_actor_critic(run):
    build_reinforce(run, ac=True)


def _vector_envs(run, discrete, same_step):
    import gymnasium as gym

    c, tr = run.cfg, run.trace
    n = c.get("n_envs", 2)
    envs = []

    def mk(i):
        def f():
            scr = c["scripts"][i % len(c["scripts"])]
            e = ScriptEnv(tr, scr, obs_dim=c.get("obs_dim", 3),
                          n_actions=c.get("n_actions", 3) if discrete else None,
                          low=c.get("low", [-1.0]), high=c.get("high", [1.0]),
                          env_id=i, snap_on_step=False)
            envs.append(e)
            return e
        return f

    mode = (gym.vector.AutoresetMode.SAME_STEP if same_step
            else gym.vector.AutoresetMode.NEXT_STEP)
    venv = gym.vector.SyncVectorEnv([mk(i) for i in range(n)],
                                    autoreset_mode=mode)
    run.envs = envs
    return venv


def _rec_vector(venv, trace, inplace_obs=False):
    """Recording vector wrapper: logs what the vector API returned (the
    reference for A2C / PPO)."""
    import gymnasium as gym

    def aligned_like(a):
        """64-byte aligned array of a's shape / dtype (JAX's CPU backend shares
        memory with aligned NumPy arrays instead of copying them)."""
        raw = np.empty(a.nbytes + 128, dtype=np.uint8)
        off = (-raw.ctypes.data) % 64 + (a.itemsize if inplace_obs == "misaligned"
                                         else 0)
        return raw[off:off + a.nbytes].view(a.dtype).reshape(a.shape)

    class RecVector(gym.vector.VectorWrapper):
        # inplace_obs: behave like SyncVectorEnv(copy=False) - one observation
        # buffer that every reset / step overwrites in place
        _buf = None

        def _handout(self, obs):
            if not inplace_obs:
                return obs
            obs = np.asarray(obs)
            if self._buf is None:
                self._buf = aligned_like(obs)
            np.copyto(self._buf, obs)
            return self._buf

        def reset(self, **kw):
            out = self.env.reset(**kw)
            trace.ev("vreset", obs=np.array(out[0], copy=True))
            if inplace_obs:
                out = (self._handout(out[0]),) + tuple(out[1:])
            return out

        def step(self, actions):
            a = np.array(actions, copy=True)
            out = self.env.step(actions)
            info = out[4]
            trace.ev(
                "vstep", action=a, obs=np.array(out[0], copy=True),
                reward=np.array(out[1], copy=True),
                terminated=np.array(out[2], copy=True),
                truncated=np.array(out[3], copy=True),
                final_obs=[None if o is None else np.array(o, copy=True)
                           for o in info["final_obs"]]
                if "final_obs" in info else None,
                final_mask=np.array(info["_final_obs"], copy=True)
                if "_final_obs" in info else None)
            if inplace_obs:
                out = (self._handout(out[0]),) + tuple(out[1:])
            return out

    return RecVector(venv)


def build_a2c(run):
    import gymnasium as gym

    from rl_blox.algorithm import a2c

    c = run.cfg
    discrete = c.get("discrete", False)
    venv = _vector_envs(run, discrete, c.get("same_step", False))
    venv = gym.wrappers.vector.RecordEpisodeStatistics(venv)
    rv = _rec_vector(venv, run.trace, c.get("inplace_obs", False))
    st = _pg_state(run, venv, discrete)
    run.env = rv
    run.kwargs = dict(
        envs=rv, policy=st.policy, policy_optimizer=st.policy_optimizer,
        value_function=st.value_function,
        value_function_optimizer=st.value_function_optimizer, seed=c["seed"],
        total_timesteps=c["total_timesteps"], gamma=c.get("gamma", 0.9),
        gae_lambda=c.get("gae_lambda", 0.9),
        steps_per_update=c.get("steps_per_update", 4), log_frequency=None,
        logger=_logger(run), progress_bar=False)
    run.fn = a2c.train_a2c
    run.patch_modules = ["rl_blox.algorithm.a2c"]
    run.extra["state"] = st


def build_ppo(run):
    import optax
    from flax import nnx

    from rl_blox.algorithm import ppo
    from rl_blox.blox.function_approximator.mlp import MLP
    from rl_blox.blox.function_approximator.policy_head import SoftmaxPolicy

    c, tr = run.cfg, run.trace
    venv = _vector_envs(run, True, True)
    rv = _rec_vector(venv, tr)
    actor = SoftmaxPolicy(MLP(3, c.get("n_actions", 3), H, "relu",
                              nnx.Rngs(c["seed"])))
    critic = MLP(3, 1, H, "relu", nnx.Rngs(c["seed"] + 1))
    oa = nnx.Optimizer(actor, optax.adam(c.get("lr", 1e-2)), wrt=nnx.Param)
    oc = nnx.Optimizer(critic, optax.adam(c.get("lr", 1e-2)), wrt=nnx.Param)
    for n, o in (("actor", actor), ("critic", critic), ("actor_optimizer", oa),
                 ("critic_optimizer", oc)):
        tr.register(n, o)
    run.env = rv
    run.kwargs = dict(envs=rv, actor=actor, critic=critic, optimizer_actor=oa,
                      optimizer_critic=oc, iterations=c.get("iterations", 3),
                      epochs=c.get("epochs", 1),
                      batch_size=c.get("rollout", 4), seed=c["seed"],
                      logger=_logger(run), progress_bar=False)
    run.fn = ppo.train_ppo
    run.patch_modules = ["rl_blox.algorithm.ppo"]
    run.extra.update(actor=actor, critic=critic)


# ------------------------------------------------------------- tabular
def _tab(run, modname, fname, two=False, mc=False):
    import importlib

    import gymnasium as gym
    import jax.numpy as jnp

    c, tr = run.cfg, run.trace
    nS, nA = c.get("n_states", 5), c.get("n_actions", 3)
    if c.get("gym_env"):
        env = gym.wrappers.RecordEpisodeStatistics(_gym_env(run))
        nS, nA = int(env.observation_space.n), int(env.action_space.n)
        env.reset(seed=c["seed"])  # the harness seeds the environment
    else:
        env = TabularScriptEnv(tr, nS, nA, c["script"], seed=c["seed"])
        env.self_loop_p = float(c.get("self_loop_p", 0.0))
        env.fixed_start_p = float(c.get("fixed_start_p", 0.0))
    run.env = env
    run.envs = [env]
    rng = np.random.default_rng(c["seed"] + 7)
    mod = importlib.import_module(modname)
    kw = dict(env=env, total_timesteps=c["total_timesteps"],
              epsilon=c.get("epsilon", 0.3), gamma=c.get("gamma", 0.9),
              seed=c["seed"], logger=_logger(run), progress_bar=False)
    if two:
        kw["q_table1"] = jnp.asarray(rng.normal(size=(nS, nA)), dtype=jnp.float32)
        kw["q_table2"] = jnp.asarray(rng.normal(size=(nS, nA)), dtype=jnp.float32)
    else:
        kw["q_table"] = jnp.asarray(rng.normal(size=(nS, nA)), dtype=jnp.float32)
    if not mc:
        kw["learning_rate"] = c.get("learning_rate", 0.3)
    if fname == "train_dynaq":
        kw["n_planning_steps"] = c.get("n_planning_steps", 2)
        kw["buffer_size"] = c.get("buffer_size", 50)
    run.kwargs = kw
    run.fn = getattr(mod, fname)
    run.patch_modules = [modname]
    del gym


def build_q_learning(run):
    _tab(run, "rl_blox.algorithm.q_learning", "train_q_learning")


def build_sarsa(run):
    _tab(run, "rl_blox.algorithm.sarsa", "train_sarsa")


def build_double_q_learning(run):
    _tab(run, "rl_blox.algorithm.double_q_learning", "train_double_q_learning",
         two=True)


def build_monte_carlo(run):
    _tab(run, "rl_blox.algorithm.monte_carlo", "train_monte_carlo", mc=True)


def build_dynaq(run):
    _tab(run, "rl_blox.algorithm.dynaq", "train_dynaq")


# ------------------------------------------------------------- CMA-ES
def build_cmaes(run):
    from flax import nnx

    from rl_blox.algorithm import cmaes
    from rl_blox.blox.function_approximator.mlp import MLP
    from rl_blox.blox.function_approximator.policy_head import (
        DeterministicTanhPolicy,
    )

    c, tr = run.cfg, run.trace
    env = _box_env(run)
    pol = DeterministicTanhPolicy(MLP(3, env.action_space.shape[0], [4], "relu",
                                      nnx.Rngs(c["seed"])), env.action_space)
    tr.register("policy", pol)
    run.kwargs = dict(env=env, policy=pol, total_episodes=c["total_episodes"],
                      seed=c["seed"], variance=c.get("variance", 0.5),
                      n_samples_per_update=c.get("n_samples_per_update", 4),
                      active=c.get("active", False), logger=_logger(run),
                      progress_bar=False)
    run.fn = cmaes.train_cmaes
    run.patch_modules = ["rl_blox.algorithm.cmaes"]
    run.extra["policy"] = pol


BUILDERS = {
    "dqn": build_dqn, "nature_dqn": build_nature_dqn, "ddqn": build_ddqn,
    "per": build_per, "ddpg": build_ddpg, "td3": build_td3,
    "td3_lap": build_td3_lap, "sac": build_sac, "td7": build_td7,
    "mrq": build_mrq, "pets": build_pets, "reinforce": build_reinforce,
    "actor_critic": build_actor_critic, "a2c": build_a2c, "ppo": build_ppo,
    "q_learning": build_q_learning, "sarsa": build_sarsa,
    "double_q_learning": build_double_q_learning,
    "monte_carlo": build_monte_carlo, "dynaq": build_dynaq, "cmaes": build_cmaes,
}

# routines that take an episode limit and report a step counter
STEP_LOOP = ["dqn", "nature_dqn", "ddqn", "per", "ddpg", "td3", "td3_lap", "sac",
             "td7", "mrq", "pets"]
HAS_TOTAL_EPISODES = ["nature_dqn", "ddqn", "per", "ddpg", "td3", "sac", "td7", "mrq"]
TABULAR = ["q_learning", "sarsa", "double_q_learning", "monte_carlo", "dynaq"]


# documented options next to their defaults (valid values per the docstrings);
# workloads draw from these so that non-default code paths are exercised too
OPTIONS = {
    "sac": {"autotune": [True, False], "policy_delay": [1, 2, 3],
            "target_network_delay": [1, 2]},
    "reinforce": {"train_after_episode": [False, True],
                  "policy_gradient_steps": [1, 2], "value_gradient_steps": [1, 2]},
    "actor_critic": {"train_after_episode": [False, True],
                     "policy_gradient_steps": [1, 2], "value_gradient_steps": [1, 2]},
    "a2c": {"policy_gradient_steps": [1, 2], "value_gradient_steps": [1, 2],
            "gae_lambda": [0.0, 0.95, 1.0]},
    "ppo": {"epochs": [1, 2]},
    "pets": {"init_with_previous_plan": [True, False]},
    "dynaq": {"n_planning_steps": [0, 2, 4]},
    "mrq": {"normalize_targets": [True, False]},
    "ddpg": {"gradient_steps": [1, 2]},
    "td3": {"gradient_steps": [1, 2], "policy_delay": [1, 2, 3]},
    "td3_lap": {"gradient_steps": [1, 2], "policy_delay": [1, 2, 3]},
    "td7": {"policy_delay": [1, 2, 3]},
    "cmaes": {"active": [False, True]},
}


def random_options(name, rng):
    return {k: (v[int(rng.integers(len(v)))]) for k, v in OPTIONS.get(name, {}).items()}


def prefill_buffer(run, n):
    """A buffer that already holds data from elsewhere (e.g. an earlier run):
    n synthetic transitions go in through the real class, unrecorded."""
    buf = run.buffer
    base = type(buf).__mro__[1]
    env = run.env if run.env is not None else run.envs[0]
    rng = np.random.default_rng(4242)
    for i in range(n):
        obs = np.asarray(env.observation_space.sample() if False else
                         [7.0, 900.0 + i // 5, float(i % 5)], dtype=np.float32)
        nobs = np.asarray([7.0, 900.0 + i // 5, float(i % 5 + 1)], dtype=np.float32)
        sp = env.action_space
        if hasattr(sp, "n"):
            act = int(rng.integers(sp.n))
        else:
            act = rng.uniform(sp.low, sp.high).astype(np.float32)
        end = i % 5 == 4
        sample = dict(observation=obs, action=act, reward=float(rng.normal()),
                      next_observation=nobs)
        if "terminated" in buf.buffer:
            sample.update(terminated=end, truncated=False)
        else:
            sample.update(termination=end)
        base.add_sample(buf, **sample)


def make_run(name, cfg, trace=None):
    import inspect

    from vf.loop import Trace

    trace = trace or Trace()
    trace.copy_leaves = cfg.get("copy_leaves", True)
    trace.snap_enabled = cfg.get("snapshots", True)
    options = cfg.get("options") or {}
    if options:
        cfg = {**cfg, **options}
    run = Run(name, trace, cfg)
    BUILDERS[name](run)
    if cfg.get("distinct_targets"):
        # user-supplied target networks that differ from the online ones (warm
        # start / continued training): every copy into them is visible
        from vf import parts
        for tname, obj in list(trace.objs.items()):
            if "target" in tname:
                parts.rescale(obj, 0.9)
    if cfg.get("own_buffer"):
        # let the routine create its replay buffer itself (replay_buffer=None);
        # the monitor rebinds the buffer class inside the routine's module
        run.kwargs["replay_buffer"] = None
        run.kwargs["buffer_size"] = cfg.get("buffer_size", 1000)
        run.buffer = None
    if cfg.get("prefill"):
        prefill_buffer(run, int(cfg["prefill"]))
    if options and run.fn is not None:
        params = inspect.signature(getattr(run.fn, "__wrapped__", run.fn)).parameters
        for k, v in options.items():
            if k in params:
                run.kwargs[k] = v
    return run
