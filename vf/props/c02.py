"""C02 - replay buffer is a faithful fixed-capacity FIFO of whole transitions.

Monitor shape: history + executable reference model.  Every value of every
field of every added transition carries the transition's unique id, so a
sampled row names the transition(s) it was assembled from.  A list-based FIFO
(one per task for the multi-task wrapper) is advanced in lock-step with the
real buffer; after every operation the monitor compares length, live content
and every sampled row.  A stub generator additionally forces *every* slot to be
sampled so that an off-by-one in the sampled range is observed, not hoped for.
icontract invariants run on the real classes on every public call.
"""

import numpy as np

from vf.core import MonitorFired, Result, guarded
from vf.stubrng import StubRng

ID = "C02"
RULE = (
    "random add/sample/select-task(/update-priority for LAP) histories on "
    "ReplayBuffer, LAP, PrioritizedReplayBuffer and MultiTaskReplayBuffer over "
    "each; capacity 1..12, 5 field schemas (vector/matrix/scalar, float/int/"
    "bool, custom keys), batch sizes 1..2N, stub generator forcing every slot "
    "and real generators; a case is non-trivial when the buffer wrapped around "
    "at least once (or has capacity 1) and at least one batch was checked; "
    "distinct = distinct (class, capacity, schema, tasks, history seed)"
)
REQUIRED = {
    "adds": 50, "sampled_rows_checked": 50, "wraparounds": 1,
    "all_slot_sweeps": 1, "contract_evals": 50,
}
ASSUMPTIONS = [
    "NumPy/JAX array conversion is exact for the small integers/dyadic "
    "fractions used as tags",
    "storage dtype = dtype given to the constructor; sampled output is JAX's "
    "default 32-bit type of it",
]
TIMEOUT = {"quick": 600, "thorough": 7000}

SCHEMAS = [
    dict(keys=None, kw={}, shapes=[(3,), (2,), (), (3,), ()]),
    dict(keys=None, kw={"discrete_actions": True}, shapes=[(), (), (), (), ()]),
    dict(keys=None, kw={}, shapes=[(2, 2), (), (), (2, 2), ()]),
    dict(keys=["x", "flag", "n"], dtypes=["float32", "bool", "int64"],
         kw={}, shapes=[(2,), (), ()]),
    dict(keys=["obs", "actions", "rewards", "terminations", "truncations"],
         dtypes=["float", "float", "float", "int", "int"], kw={},
         shapes=[(2, 3), (2,), (2,), (2,), (2,)]),
]
DEFAULT_KEYS = ["observation", "action", "reward", "next_observation", "termination"]


def gen_cases(tier, seed):
    rng = np.random.default_rng(seed + 2002)
    n = 2000 if tier == "quick" else 40000
    classes = ["ReplayBuffer", "LAP", "PrioritizedReplayBuffer"]
    cases = []
    # systematic corner: every class x capacity 1,2,3 x schema, single + multi
    for c in classes:
        for N in (1, 2, 3):
            for s in range(len(SCHEMAS)):
                for multi in (0, 2):
                    cases.append(dict(cls=c, N=N, schema=s, multi=multi,
                                      n_ops=40, seed=int(rng.integers(1 << 30))))
    while len(cases) < n:
        cases.append(dict(
            cls=classes[int(rng.integers(3))], N=int(rng.integers(1, 13)),
            schema=int(rng.integers(len(SCHEMAS))),
            multi=int(rng.choice([0, 0, 2, 3, 4])),
            n_ops=int(rng.integers(10, 70)), seed=int(rng.integers(1 << 30)),
        ))
    return cases


# ---------------------------------------------------------------- tagging
def field_value(i, f, shape, dtype):
    n = int(np.prod(shape)) if shape else 1
    c = np.arange(n)
    dt = np.dtype(dtype)
    if dt == np.bool_:
        v = ((i + f + c) % 2).astype(bool)
    elif dt.kind in "iu":
        v = (i * 64 + f * 8 + c + 1).astype(dt)
    else:
        v = (i + (f * 8 + c + 1) / 64.0).astype(dt)
    return v.reshape(shape)


def row_id(v, dtype):
    dt = np.dtype(dtype)
    x = np.asarray(v).ravel()[0]
    if dt.kind in "iu":
        return int(x) // 64
    return int(np.floor(float(x)))


class InvariantBroken(MonitorFired):
    def __init__(self, what):
        super().__init__("C02/invariant", f"icontract invariant broken: {what}")


_CONTRACT_EVALS = [0]


def _inv_indices(self):
    _CONTRACT_EVALS[0] += 1
    return (0 <= self.insert_idx < self.buffer_size
            and 0 <= self.current_len <= self.buffer_size)


def _inv_alloc(self):
    if self.current_len == 0:
        return True
    return all(len(a) == self.buffer_size for a in self.buffer.values())


def _inv_prio(self):
    if not hasattr(self, "priority") or self.current_len == 0:
        return True
    p = self.priority
    return bool(p.max_priority >= np.max(p.priority[: self.current_len]))


_MON = {}


def monitored_class(name):
    """Subclass of the real buffer class with icontract invariants."""
    if name in _MON:
        return _MON[name]
    import icontract

    import rl_blox.blox.replay_buffer as rb

    base = getattr(rb, name)
    cls = type("Mon" + name, (base,), {})
    for cond, what in ((_inv_indices, "index/length out of range"),
                       (_inv_alloc, "field array not of capacity"),
                       (_inv_prio, "max_priority below a stored priority")):
        cls = icontract.invariant(
            cond, error=lambda self, what=what: InvariantBroken(what))(cls)
    _MON[name] = cls
    return cls


def run_case(case):
    res = Result()
    import rl_blox.blox.replay_buffer as rb

    rng = np.random.default_rng(case["seed"])
    sch = SCHEMAS[case["schema"]]
    keys = sch["keys"] or DEFAULT_KEYS
    N, multi = case["N"], case["multi"]
    Cls = monitored_class(case["cls"])
    kwargs = dict(sch["kw"])
    if sch["keys"] is not None:
        kwargs["keys"] = list(sch["keys"])
        kwargs["dtypes"] = [np.dtype(d) if d not in ("float", "int") else
                            {"float": float, "int": int}[d] for d in sch["dtypes"]]
    ok, base = guarded(res, "C02/raises/constructor", Cls, N, **kwargs)
    if not ok:
        return res
    # documented storage dtypes (constructor argument, or the documented
    # defaults: float everywhere, int for 'termination' and - with
    # discrete_actions - for 'action'); NOT read back from the buffer
    if sch["keys"] is not None:
        dtypes = [np.dtype({"float": float, "int": int}.get(d, d))
                  for d in sch["dtypes"]]
    else:
        disc = bool(sch["kw"].get("discrete_actions"))
        dtypes = [np.dtype(float), np.dtype(int if disc else float),
                  np.dtype(float), np.dtype(float), np.dtype(int)]
    for k, want_dt in zip(keys, dtypes):
        if base.buffer[k].dtype != want_dt:
            res.violation("C02/storage_dtype", f"{case['cls']}: field '{k}' is "
                          f"stored as {base.buffer[k].dtype}, documented storage "
                          f"dtype is {want_dt}", {"kw": sch["kw"]})
            return res
    if multi:
        buf = rb.MultiTaskReplayBuffer(base, multi)
    else:
        buf = base
    n_tasks = max(1, multi)
    ref = [[] for _ in range(n_tasks)]  # per task: list of ids, newest last
    selected = 0
    next_id = 1
    is_prio = case["cls"] in ("LAP", "PrioritizedReplayBuffer")
    is_strat = case["cls"] == "PrioritizedReplayBuffer"
    wrapped = False
    batches_checked = 0

    # the very first transition may carry whole numbers handed over as integers
    # (a sparse reward of 0, an observation built from an integer array); the
    # documented storage dtype does not depend on it
    int_first = case["seed"] % 3 == 0

    def expected(i, f):
        v = field_value(i, f, sch["shapes"][f], dtypes[f])
        if int_first and i == 1 and np.dtype(dtypes[f]).kind == "f":
            v = np.floor(v)
        return v

    def check_live(where):
        # length and content of every task buffer
        total = 0
        for t in range(n_tasks):
            b = buf.buffers[t] if multi else buf
            total += len(ref[t])
            if len(b) != len(ref[t]):
                res.violation("C02/length", f"{where}: len={len(b)} but "
                              f"min(n,N)={len(ref[t])} (task {t})",
                              {"case": case})
                return
            if len(ref[t]) == 0:
                continue
            live = {}
            for f, k in enumerate(keys):
                arr = b.buffer[k][: len(b)]
                for r in range(len(b)):
                    if f == _idf:
                        live[r] = row_id(arr[r], dtypes[f])
            ids = sorted(live.values())
            if ids != sorted(ref[t]):
                res.violation("C02/content", f"{where}: buffer holds ids {ids}, "
                              f"most recent min(n,N) are {sorted(ref[t])}",
                              {"task": t})
                return
            for f, k in enumerate(keys):
                arr = b.buffer[k][: len(b)]
                for r in range(len(b)):
                    if not np.array_equal(arr[r], expected(live[r], f)):
                        res.violation(
                            "C02/content", f"{where}: stored field {k} of id "
                            f"{live[r]} modified", {"got": arr[r],
                                                    "want": expected(live[r], f)})
                        return
            res.see("live_rows_checked", len(b))
        if len(buf) != total:
            res.violation("C02/length", f"{where}: len(buffer)={len(buf)} != {total}")

    _idf = next(f for f, d in enumerate(dtypes) if d != np.bool_)

    def check_batch(batch, where, allowed_tasks):
        nonlocal batches_checked
        fields = [np.asarray(getattr(batch, k)) for k in keys]
        n = fields[0].shape[0]
        row_tasks = set()
        for r in range(n):
            i = row_id(fields[_idf][r], dtypes[_idf])
            owner = [t for t in range(n_tasks) if i in ref[t]]
            if not owner:
                res.violation("C02/sampled_not_live", f"{where}: sampled row has "
                              f"id {i} which is not among the stored transitions",
                              {"ref": ref, "row": [f[r] for f in fields]})
                return None
            row_tasks.add(owner[0])
            for f, k in enumerate(keys):
                want = expected(i, f)
                got = fields[f][r]
                if got.dtype.kind != dtypes[f].kind:
                    res.violation(
                        "C02/storage_dtype", f"{where}: field '{k}' sampled as "
                        f"{got.dtype}, documented storage dtype is {dtypes[f]}")
                    return None
                if not np.array_equal(got, want.astype(got.dtype)):
                    res.violation("C02/mixed_row", f"{where}: sampled row mixes "
                                  f"transitions: field {k} is not that of id {i}",
                                  {"got": got, "want": want})
                    return None
        res.see("sampled_rows_checked", n)
        batches_checked += 1
        if len(row_tasks) > 1:
            res.violation("C02/multitask_mixed_batch",
                          f"{where}: batch mixes tasks {sorted(row_tasks)}")
        if allowed_tasks is not None and not row_tasks <= allowed_tasks:
            res.violation("C02/multitask_wrong_task",
                          f"{where}: batch from task(s) {sorted(row_tasks)}")
        return {row_id(fields[_idf][r], dtypes[_idf]) for r in range(n)}

    def do_sample(bs, g, where):
        if is_strat:
            ok, out = guarded(res, "C02/raises/sample_batch", buf.sample_batch, bs, g)
            return ok, (out[0] if ok else None)
        return guarded(res, "C02/raises/sample_batch", buf.sample_batch, bs, g)

    for opi in range(case["n_ops"]):
        r = rng.random()
        any_data = any(len(x) for x in ref)
        if multi and r < 0.15:
            t = int(rng.integers(-2, n_tasks + 2))
            if 0 <= t < n_tasks:
                ok, _ = guarded(res, "C02/raises/select_task", buf.select_task, t)
                if not ok:
                    return res
                selected = t
                res.see("select_valid")
            else:
                try:
                    buf.select_task(t)
                    res.violation("C02/select_invalid_accepted",
                                  f"select_task({t}) accepted with {n_tasks} tasks")
                except ValueError:
                    res.see("select_invalid_rejected")
            continue
        if r < 0.65 or not any_data:
            i = next_id
            next_id += 1
            sample = {k: expected(i, f) for f, k in enumerate(keys)}
            # hand over python scalars for 0-d fields, like the training loops do
            sample = {k: (v.item() if v.shape == () and rng.random() < 0.5 else v)
                      for k, v in sample.items()}
            if int_first and i == 1:
                sample = {k: (np.asarray(v).astype(np.int64) if np.asarray(v).dtype.kind
                              == "f" else v) for k, v in sample.items()}
                sample = {k: (int(v) if np.asarray(v).shape == () and
                              np.asarray(v).dtype.kind == "i" and
                              not isinstance(v, (bool, np.bool_)) else v)
                          for k, v in sample.items()}
                res.see("integer_typed_first_transition")
            if rng.random() < 0.03:
                # the buffer object may be replaced by a deep copy at any time
                import copy
                ok, cp = guarded(res, "C02/raises/deepcopy", copy.deepcopy, buf)
                if not ok:
                    return res
                buf = cp
                if multi:
                    pass
                res.see("deep_copies")
            if rng.random() < 0.3:
                # keyword arguments have no order: hand them over shuffled
                ks = list(sample)
                rng.shuffle(ks)
                sample = {k: sample[k] for k in ks}
                res.see("adds_with_shuffled_keywords")
            ok, _ = guarded(res, "C02/raises/add_sample", buf.add_sample, **sample)
            if not ok:
                return res
            ref[selected].append(i)
            if len(ref[selected]) > N:
                ref[selected].pop(0)
                wrapped = True
                res.see("wraparounds")
            res.see("adds")
            check_live(f"after add #{i}")
            if res.viol:
                return res
            continue
        # ---- sample
        tasks_with_data = {t for t in range(n_tasks) if ref[t]}
        mode = rng.choice(["all", "real", "real"])
        if mode == "real":
            bs = int(rng.integers(1, 2 * N + 1))
            g = np.random.default_rng(int(rng.integers(1 << 30)))
            if multi:
                g = _ChoiceSpy(g)
            ok, batch = do_sample(bs, g, "real")
            if not ok:
                return res
            check_batch(batch, f"op {opi} real rng", tasks_with_data)
            if multi:
                for cand in g.candidates:
                    if not set(cand) <= tasks_with_data:
                        res.violation(
                            "C02/multitask_empty_task_candidate",
                            f"batch task drawn from {cand}, tasks with data: "
                            f"{sorted(tasks_with_data)}")
            res.see("real_rng_batches")
        else:
            # force every slot of (every) task to be drawn
            for t in sorted(tasks_with_data):
                b = buf.buffers[t] if multi else buf
                L = len(ref[t])
                seen = set()
                pos = sorted(tasks_with_data).index(t)
                if not is_prio:
                    g = StubRng(choice_pos=lambda n, t=t: 0)
                    g = _ForceTask(g, t) if multi else g
                    ok, batch = do_sample(L, g, "all")
                    if not ok:
                        return res
                    got = check_batch(batch, f"op {opi} all-slots", {t})
                    if got is None:
                        return res
                    seen |= got
                    # ask for more than the filled region: range must be [0,len)
                    for c in g.calls if not multi else g.inner.calls:
                        if c[0] == "integers":
                            res.see("integers_calls")
                else:
                    p = np.asarray(b.priority.priority[:L], dtype=float)
                    cum = np.cumsum(p)
                    mids = (np.concatenate(([0.0], cum[:-1])) + cum) / 2 / cum[-1]
                    if is_strat:
                        for m in mids:
                            g = StubRng(u=[m])
                            g = _ForceTask(g, t) if multi else g
                            ok, batch = do_sample(1, g, "all")
                            if not ok:
                                return res
                            got = check_batch(batch, f"op {opi} all-slots", {t})
                            if got is None:
                                return res
                            seen |= got
                    else:
                        g = StubRng(u=list(mids))
                        g = _ForceTask(g, t) if multi else g
                        ok, batch = do_sample(L, g, "all")
                        if not ok:
                            return res
                        got = check_batch(batch, f"op {opi} all-slots", {t})
                        if got is None:
                            return res
                        seen |= got
                if seen != set(ref[t]):
                    res.violation(
                        "C02/slot_unreachable",
                        f"forcing every index returned ids {sorted(seen)} but "
                        f"stored are {sorted(ref[t])} (task {t})")
                    return res
                res.see("all_slot_sweeps")
                res.state((case["cls"], N, L, wrapped))
            del pos
        # LAP: follow a sample with a priority update now and then
        if case["cls"] == "LAP" and not multi and rng.random() < 0.4:
            bs = int(rng.integers(1, N + 1))
            g = np.random.default_rng(int(rng.integers(1 << 30)))
            ok, batch = do_sample(bs, g, "pre-update")
            if not ok:
                return res
            pr = rng.choice([1e-3, 1.0, 7.5, 1e3], size=bs)
            ok, _ = guarded(res, "C02/raises/update_priority",
                            buf.update_priority, pr)
            if not ok:
                return res
            res.see("priority_updates")
            check_live("after update_priority")
    res.see("contract_evals", _CONTRACT_EVALS[0])
    _CONTRACT_EVALS[0] = 0
    res.nontrivial = bool((wrapped or N == 1) and batches_checked > 0)
    return res


class _ChoiceSpy:
    """Real generator that records the candidate lists given to choice()."""

    def __init__(self, g):
        self.g = g
        self.candidates = []

    def choice(self, a, *args, **kw):
        self.candidates.append([int(x) for x in np.asarray(a).ravel()])
        return self.g.choice(a, *args, **kw)

    def __getattr__(self, name):
        return getattr(self.g, name)


class _ForceTask:
    """Stub whose choice() returns task `t` when it is among the candidates."""

    def __init__(self, inner, t):
        self.inner = inner
        self.t = t

    def choice(self, a, size=None, **kw):
        a = np.asarray(a)
        val = self.t if self.t in a.tolist() else a[0]
        if size is None:
            return val
        return np.full(size, val)

    def __getattr__(self, name):
        return getattr(self.inner, name)
