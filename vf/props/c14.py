"""C14 - tabular learners apply their textbook update to exactly one entry.

NumPy references; direct drive of the jitted update functions on random tables
and transitions, and the same functions rebound inside the real training loops
on a tabular scripted environment with stochastic successors.
"""

import inspect

import numpy as np

from vf.core import Result, guarded
from vf.loop import rebound

ID = "C14"
RULE = (
    "single updates of Q-learning, SARSA, double Q-learning, Dyna-Q's "
    "q_learning_update on random tables up to 6x4 (incl. ties in the greedy "
    "action), all states/actions/successors, rewards, both termination flags, "
    "gamma and learning rate in [0,1]; Monte-Carlo updates over episode "
    "histories with repeated visits and non-zero initial visit counts; Dyna-Q "
    "model over transition histories with stochastic successors; the same "
    "functions observed inside train_* runs (50-150 steps). Non-trivial = case "
    "with a terminated transition, a tie or a repeated (s,a) visit; distinct by "
    "(algorithm, seed)"
)
REQUIRED = {
    "single_updates_checked": 500, "other_entries_bitwise_checks": 500,
    "mc_entries_checked": 50, "model_rows_checked": 50,
    "in_loop_updates_checked": 100, "planning_updates_checked": 10,
    "planning_calls_checked": 20, "planning_calls_with_greedy_switch": 3,
    "in_loop_update_inputs_checked": 100, "in_loop_updates_on_truncated_steps": 5,
}
TIMEOUT = {"quick": 1200, "thorough": 7000}
ASSUMPTIONS = [
    "Dyna-Q's update carries no termination flag (textbook convention: terminal "
    "rows are zero); its oracle applies the greedy-successor formula as stated, "
    "without a termination factor",
    "ties in a greedy choice: any maximiser accepted",
]
ALGOS = ["q_learning", "sarsa", "double_q_learning", "dynaq"]


def gen_cases(tier, seed):
    rng = np.random.default_rng(seed + 1414)
    k = 1 if tier == "quick" else 60
    cases = []
    for algo in ALGOS:
        for i in range(4 * k):
            cases.append(dict(kind="single", algo=algo, n=60,
                              seed=int(rng.integers(1 << 30)), cost=2))
    for i in range(6 * k):
        cases.append(dict(kind="mc", seed=int(rng.integers(1 << 30)), cost=2))
        cases.append(dict(kind="model", seed=int(rng.integers(1 << 30)), cost=3))
        cases.append(dict(kind="planning", seed=int(rng.integers(1 << 30)), cost=2))
    for algo in ALGOS + ["monte_carlo"]:
        for i in range(2 * k):
            cases.append(dict(kind="loop", algo=algo,
                              seed=int(rng.integers(1 << 20)),
                              total_timesteps=int(rng.integers(50, 110)),
                              cost=8 if algo == "dynaq" else 4))
    return cases


def run_case(case):
    return globals()["run_" + case["kind"]](case)


def rand_table(rng, nS, nA, ties=False, zero_rows=()):
    q = rng.normal(size=(nS, nA)).astype(np.float32)
    if ties:
        q = np.round(q)  # many equal entries
    for s in zip(zero_rows):
        q[s] = 0.0
    return q


def close(a, b):
    return abs(float(a) - float(b)) <= 2e-5 * (1.0 + abs(float(b)))


def check_update(res, algo, q_old, q_new, s, a, targets, lr, where, other=None):
    """q_new must equal q_old except at (s,a); the visited entry must have moved
    to q + lr*(target - q) for one of the admissible targets."""
    q_old, q_new = np.asarray(q_old), np.asarray(q_new)
    if q_new.shape != q_old.shape:
        res.violation(f"C14/{algo}/shape", f"{where}: table shape changed")
        return False
    mask = np.ones(q_old.shape, bool)
    mask[s, a] = False
    if not np.array_equal(q_new[mask], q_old[mask]):
        idx = np.argwhere((q_new != q_old) & mask)
        res.violation(f"C14/{algo}/other_entry_changed",
                      f"{where}: entries {idx.tolist()} changed although only "
                      f"({s},{a}) was visited")
        return False
    res.see("other_entries_bitwise_checks")
    old = float(q_old[s, a])
    wants = [old + lr * (t - old) for t in targets]
    if not any(close(q_new[s, a], w) for w in wants):
        res.violation(
            f"C14/{algo}/visited_entry",
            f"{where}: Q({s},{a}) moved {old!r} -> {float(q_new[s, a])!r}; "
            f"textbook update gives {wants}",
            {"lr": lr, "targets": targets})
        return False
    return True


def targets_for(algo, q, q2, r, gamma, term, s2, a2=None):
    nd = 1.0 - float(term)
    row = np.asarray(q[s2], dtype=np.float64)
    if algo == "q_learning":
        return [r + gamma * nd * float(row.max())]
    if algo == "sarsa":
        return [r + gamma * nd * float(q[s2, a2])]
    if algo == "double_q_learning":
        best = np.flatnonzero(row == row.max())
        return [r + gamma * nd * float(q2[s2, b]) for b in best]
    if algo == "dynaq":
        return [r + gamma * float(row.max())]
    raise KeyError(algo)


def call_update(algo, mod, q, q2, s, a, r, s2, a2, gamma, lr, term, key):
    import jax.numpy as jnp

    if algo == "q_learning":
        return mod._update_policy(jnp.asarray(q), s, a, r, s2, a2, gamma, term, lr)
    if algo == "sarsa":
        return mod._update_policy(jnp.asarray(q), s, a, r, s2, a2, gamma, lr, term)
    if algo == "double_q_learning":
        return mod._dql_update(key, jnp.asarray(q), jnp.asarray(q2), s, a, r, s2,
                               gamma, lr, term)
    return mod.q_learning_update(s, a, r, s2, gamma, lr, jnp.asarray(q))


def run_single(case):
    res = Result()
    import importlib

    import jax

    algo = case["algo"]
    mod = importlib.import_module(f"rl_blox.algorithm.{algo}")
    rng = np.random.default_rng(case["seed"])
    nS, nA = int(rng.integers(2, 7)), int(rng.integers(2, 5))
    key = jax.random.key(case["seed"] % 1000)
    nontrivial = False
    for i in range(case["n"]):
        ties = rng.random() < 0.3
        q = rand_table(rng, nS, nA, ties)
        q2 = rand_table(rng, nS, nA, ties)
        s, s2 = int(rng.integers(nS)), int(rng.integers(nS))
        if rng.random() < 0.2:
            s2 = s
        a = int(rng.integers(nA))
        r = float(np.float32(rng.normal() * rng.choice([0.1, 1, 10])))
        gamma = float(rng.choice([0.0, 0.5, 0.9, 0.99, 1.0]))
        lr = float(rng.choice([0.0, 0.1, 0.5, 1.0]))
        term = bool(rng.random() < 0.4) if algo != "dynaq" else False
        if algo == "q_learning":
            a2 = int(np.argmax(q[s2]))  # the loop supplies the greedy action
        else:
            a2 = int(rng.integers(nA))
        ok, out = guarded(res, f"C14/raises/{algo}", call_update, algo, mod, q, q2,
                          s, a, r, s2, a2, gamma, lr, term, key)
        if not ok:
            return res
        tg = targets_for(algo, q, q2, r, gamma, term, s2, a2)
        if not check_update(res, algo, q, out, s, a, tg, lr,
                            f"s={s},a={a},r={r},s'={s2},term={term},gamma={gamma}"):
            return res
        res.see("single_updates_checked")
        nontrivial |= bool(term or ties)
        res.state((algo, term, ties, s == s2))
    res.nontrivial = nontrivial
    return res


# --------------------------------------------------------------- Monte Carlo
def run_mc(case):
    res = Result()
    import jax.numpy as jnp

    from rl_blox.algorithm import monte_carlo as mc

    rng = np.random.default_rng(case["seed"])
    nS, nA = int(rng.integers(2, 6)), int(rng.integers(2, 4))
    gamma = float(rng.choice([0.0, 0.3, 0.5, 0.9, 1.0]))
    q0 = rand_table(rng, nS, nA)
    n0 = np.zeros((nS, nA), np.float32)
    if rng.random() < 0.4:
        n0 = rng.integers(0, 4, size=(nS, nA)).astype(np.float32)
    q, n = jnp.asarray(q0), jnp.asarray(n0)
    returns = {}
    repeated = False
    for ep in range(int(rng.integers(1, 7))):
        L = int(rng.choice([1, 2, 3, 5, 9]))
        if case["seed"] % 3 == 0 and ep == 0:
            L = int(rng.choice([150, 400]))  # long episode: gamma**t underflows
        obs = rng.integers(0, nS, size=L)
        act = rng.integers(0, nA, size=L)
        rew = rng.normal(size=L).astype(np.float32)
        ok, out = guarded(res, "C14/raises/monte_carlo", mc.update, q, n,
                          jnp.asarray(rew), jnp.asarray(obs, dtype=jnp.int32),
                          jnp.asarray(act, dtype=jnp.int32), gamma)
        if not ok:
            return res
        q_new, n_new = np.asarray(out[0]), np.asarray(out[1])
        G = 0.0
        for t in reversed(range(L)):
            G = float(rew[t]) + gamma * G
            returns.setdefault((int(obs[t]), int(act[t])), []).append(G)
        visited = {(int(o), int(a)) for o, a in zip(obs, act)}
        repeated |= len(visited) < L
        mask = np.ones((nS, nA), bool)
        for (s, a) in visited:
            mask[s, a] = False
        if not (np.array_equal(q_new[mask], np.asarray(q)[mask])
                and np.array_equal(n_new[mask], np.asarray(n)[mask])):
            res.violation("C14/monte_carlo/other_entry_changed",
                          "entries not visited in the episode changed")
            return res
        res.see("other_entries_bitwise_checks")
        for (s, a), gs in returns.items():
            want = (n0[s, a] * q0[s, a] + sum(gs)) / (n0[s, a] + len(gs))
            if abs(q_new[s, a] - want) > 1e-4 * (1 + abs(want)):
                res.violation(
                    "C14/monte_carlo/running_mean",
                    f"Q({s},{a}) = {q_new[s, a]!r}, running mean of the "
                    f"{len(gs)} observed discounted returns is {want!r}",
                    {"returns": gs, "n0": n0[s, a], "q0": q0[s, a]})
                return res
            if n_new[s, a] != n0[s, a] + len(gs):
                res.violation("C14/monte_carlo/visit_count",
                              f"visit count {n_new[s, a]} != {n0[s, a] + len(gs)}")
                return res
            res.see("mc_entries_checked")
        q, n = out[0], out[1]
    res.nontrivial = repeated
    return res


# --------------------------------------------------------------- Dyna-Q model
def empirical(hist, nS, nA):
    cnt = np.zeros((nS, nA, nS))
    rs = {}
    for s, a, r, s2 in hist:
        cnt[s, a, s2] += 1
        rs.setdefault((s, a, s2), []).append(r)
    return cnt, rs


def check_model(res, model, hist, nS, nA, where):
    cnt, rs = empirical(hist, nS, nA)
    T = np.asarray(model.transition, dtype=float)
    R = np.asarray(model.reward, dtype=float)
    for s in range(nS):
        for a in range(nA):
            tot = cnt[s, a].sum()
            if tot == 0:
                continue
            want = cnt[s, a] / tot
            if not np.allclose(T[s, a], want, atol=1e-6):
                res.violation(
                    "C14/dynaq/model_frequencies",
                    f"{where}: model P(.|s={s},a={a}) = {T[s, a].tolist()} but the "
                    f"empirical successor frequencies are {want.tolist()}")
                return False
            for s2 in range(nS):
                if cnt[s, a, s2]:
                    m = float(np.mean(rs[(s, a, s2)]))
                    if abs(R[s, a, s2] - m) > 1e-5 * (1 + abs(m)):
                        res.violation(
                            "C14/dynaq/model_rewards",
                            f"{where}: model reward ({s},{a},{s2}) = "
                            f"{R[s, a, s2]!r}, empirical mean {m!r}")
                        return False
            res.see("model_rows_checked")
    return True


def run_model(case):
    res = Result()
    import jax.numpy as jnp

    from rl_blox.algorithm import dynaq

    rng = np.random.default_rng(case["seed"])
    nS, nA = int(rng.integers(2, 5)), int(rng.integers(1, 4))
    counter = dynaq.Counter(
        transition_counter=[[[0] * nS for _ in range(nA)] for _ in range(nS)],
        reward_history=[[[[] for _ in range(nS)] for _ in range(nA)]
                        for _ in range(nS)])
    model = dynaq.ForwardModel(transition=jnp.zeros((nS, nA, nS)),
                               reward=jnp.zeros((nS, nA, nS)))
    hist = []
    stochastic = False
    for i in range(int(rng.integers(5, 40))):
        s, a = int(rng.integers(nS)), int(rng.integers(nA))
        s2 = int(rng.integers(nS))
        r = float(np.round(rng.normal(), 2))
        if case["seed"] % 2:
            # few distinct reward values (coin-flip pay-offs): the same
            # transition pays different amounts, and the same amount repeatedly
            r = float(rng.choice([0.0, 1.0, 3.0]))
        ok, counter = guarded(res, "C14/raises/counter_update",
                              dynaq.counter_update, counter, s, a, r, s2)
        if not ok:
            return res
        ok, model = guarded(res, "C14/raises/model_update", dynaq.model_update,
                            model, counter, s, a, s2)
        if not ok:
            return res
        hist.append((s, a, r, s2))
        succ = {h[3] for h in hist if h[0] == s and h[1] == a}
        stochastic |= len(succ) > 1
        if not check_model(res, model, hist, nS, nA, f"after transition {i}"):
            return res
    res.nontrivial = stochastic
    return res


def run_planning(case):
    """Dyna-Q's planning call as a black box: with a single visited pair in the
    replay store every replay is of that pair, whatever the sampling protocol;
    the result must equal that many sequential greedy-successor updates (the
    greedy action at the successor may change from one replay to the next)."""
    res = Result()
    import jax
    import jax.numpy as jnp

    from rl_blox.algorithm import dynaq

    rng = np.random.default_rng(case["seed"])
    for rep in range(8):
        nS, nA = int(rng.integers(2, 5)), int(rng.integers(2, 4))
        s, a = int(rng.integers(nS)), int(rng.integers(nA))
        s2 = s if rng.random() < 0.6 else int(rng.integers(nS))
        r = float(np.round(rng.uniform(-3, 1), 3))
        gamma, lr = float(rng.choice([0.5, 0.9, 1.0])), float(rng.choice([0.3, 0.7]))
        n = int(rng.integers(1, 7))
        q = rng.normal(size=(nS, nA)).astype(np.float32)
        q[s, a] = q[s].max() + 0.5  # the replayed action starts out greedy
        T = np.zeros((nS, nA, nS), np.float32)
        T[s, a, s2] = 1.0
        R = np.zeros((nS, nA, nS), np.float32)
        R[s, a, s2] = r
        ok, out = guarded(res, "C14/raises/planning", dynaq.planning,
                          jnp.asarray(T), jnp.asarray(R), jnp.asarray([s]),
                          jnp.asarray([a]), n, jax.random.key(int(rng.integers(99))),
                          gamma, lr, jnp.asarray(q))
        if not ok:
            return res
        out = np.asarray(out, np.float64)
        want = q.astype(np.float64).copy()
        switched = False
        g0 = int(np.argmax(want[s2]))
        for _ in range(n):
            switched |= int(np.argmax(want[s2])) != g0
            want[s, a] += lr * (r + gamma * want[s2].max() - want[s, a])
        mask = np.ones_like(want, bool)
        mask[s, a] = False
        if not np.array_equal(out[mask], q.astype(np.float64)[mask]):
            res.violation("C14/dynaq/planning_other_entry",
                          "planning changed an entry that was never replayed")
            return res
        if abs(out[s, a] - want[s, a]) > 1e-4 * (1 + abs(want[s, a])):
            res.violation(
                "C14/dynaq/planning_sequence",
                f"{n} replays of ({s},{a}) -> {s2} (reward {r}): Q = "
                f"{out[s, a]!r}, {n} sequential greedy-successor updates give "
                f"{want[s, a]!r}"
                + (" (the greedy successor action changes in between)"
                   if switched else ""))
            return res
        res.see("planning_calls_checked")
        if switched:
            res.see("planning_calls_with_greedy_switch")
    res.nontrivial = True
    return res


# --------------------------------------------------------------- in-loop
def check_inputs(res, algo, steps, n, s, ac, rew, s2, term):
    """The update made after environment step n is an update for that step:
    its (s, a, r, s', terminated) are what the environment produced there -
    in particular a truncated step is not a terminated one."""
    if not 1 <= n <= len(steps):
        res.violation(f"C14/loop/update_inputs/{algo}",
                      f"update recorded after {n} environment steps of {len(steps)}")
        return False
    st = steps[n - 1]
    got = (s, ac, round(rew, 5), s2)
    want = (int(st["prev"]), int(st["action"]), round(float(st["reward"]), 5),
            int(st["obs"]))
    if got != want or (term is not None and term != bool(st["terminated"])):
        res.violation(
            f"C14/loop/update_inputs/{algo}",
            f"in train_{algo}: the update after env step {n} used (s, a, r, s', "
            f"terminated) = {got + (term,)}, the environment produced "
            f"{want + (bool(st['terminated']),)} (truncated={st['truncated']})")
        return False
    res.see("in_loop_update_inputs_checked")
    if st["truncated"]:
        res.see("in_loop_updates_on_truncated_steps")
    return True


def run_loop(case):
    res = Result()
    import importlib

    from vf.algos import make_run

    algo = case["algo"]
    cfg = dict(script=[[3, "T"], [5, "U"], [2, "T"], [7, "T"]], seed=case["seed"],
               total_timesteps=case["total_timesteps"], snapshots=False,
               logger=False, n_states=4, n_actions=3,
               gamma=0.9, learning_rate=0.3, epsilon=0.3)
    if case["seed"] % 2 or algo in ("dynaq", "monte_carlo"):
        # process history: an earlier, unrelated training call with tables of
        # the same shape (other seed, other episode script) must not leak in
        pre = make_run(algo, dict(cfg, seed=case["seed"] + 313, total_timesteps=40,
                                  script=[[2, "T"], [6, "U"], [4, "T"]]))
        ok, _ = guarded(res, f"C14/raises/train_{algo}", pre.call)
        if not ok:
            return res
        res.see("loops_after_an_earlier_run")
    run = make_run(algo, cfg)
    mod = importlib.import_module(run.patch_modules[0])
    tr = run.trace
    records = []
    in_planning = [0]

    def rec(name):
        fn = getattr(mod, name)
        sig = inspect.signature(getattr(fn, "__wrapped__", fn))

        def wrapper(*a, **kw):
            ba = sig.bind(*a, **kw)
            args = {k: (None if k == "key" else np.array(v, copy=True))
                    for k, v in ba.arguments.items()}
            out = fn(*a, **kw)
            records.append(dict(name=name, args=args, out=out, n=tr.n_steps,
                                planning=bool(in_planning[0])))
            return out

        return wrapper

    patches = []
    names = {"q_learning": ["_update_policy"], "sarsa": ["_update_policy"],
             "double_q_learning": ["_dql_update"], "monte_carlo": ["update"],
             "dynaq": ["q_learning_update"]}[algo]
    for nme in names:
        patches.append((mod, nme, rec(nme)))
    models = []
    if algo == "dynaq":
        orig_plan = mod.planning

        def planning(*a, **kw):
            in_planning[0] += 1
            try:
                return orig_plan(*a, **kw)
            finally:
                in_planning[0] -= 1

        orig_mu = mod.model_update

        def model_update(model, counter, obs, act, next_obs):
            out = orig_mu(model, counter, obs, act, next_obs)
            models.append((tr.n_steps, np.asarray(out.transition),
                           np.asarray(out.reward)))
            return out

        patches += [(mod, "planning", planning), (mod, "model_update", model_update)]
    with rebound(patches):
        ok, _ = guarded(res, f"C14/raises/train_{algo}", run.call)
    if not ok:
        return res
    steps = [e for e in tr.events if e["k"] == "step"]
    lr, gamma = 0.3, 0.9
    nontrivial = False
    if algo == "monte_carlo":
        # episode arrays -> running means (zero initial visit counts)
        q0 = np.asarray(run.kwargs["q_table"])
        returns = {}
        for r in records:
            a = r["args"]
            G = 0.0
            for t in reversed(range(len(a["rewards"]))):
                G = float(a["rewards"][t]) + gamma * G
                returns.setdefault((int(a["observations"][t]),
                                    int(a["actions"][t])), []).append(G)
            qn = np.asarray(r["out"][0])
            for (s, aa), gs in returns.items():
                want = float(np.mean(gs))
                if abs(qn[s, aa] - want) > 1e-4 * (1 + abs(want)):
                    res.violation("C14/monte_carlo/running_mean",
                                  f"in train_monte_carlo: Q({s},{aa}) = "
                                  f"{qn[s, aa]!r}, running mean {want!r}")
                    return res
                res.see("mc_entries_checked")
            mask = np.ones(qn.shape, bool)
            for (s, aa) in returns:
                mask[s, aa] = False
            if not np.array_equal(qn[mask], q0[mask]):
                res.violation("C14/monte_carlo/other_entry_changed",
                              "never-visited entries changed")
                return res
            res.see("in_loop_updates_checked")
            nontrivial = True
        res.nontrivial = nontrivial
        return res
    hist = []
    for r in records:
        a = r["args"]
        if algo == "dynaq":
            s, ac, rew, s2 = (int(a["obs"]), int(a["act"]), float(a["reward"]),
                              int(a["next_obs"]))
            q_old, q_new = a["q_table"], np.asarray(r["out"])
            if not r["planning"] and not check_inputs(res, algo, steps, r["n"], s, ac,
                                                      rew, s2, None):
                return res
            tg = targets_for("dynaq", q_old, None, rew, gamma, False, s2)
            if not check_update(res, "dynaq", q_old, q_new, s, ac, tg, lr,
                                f"in train_dynaq ({'planning' if r['planning'] else 'real'})"):
                return res
            if r["planning"]:
                # replayed transition must come from the learned model of the
                # transitions observed so far
                e_hist = [(st["prev"], st["action"], st["reward"], st["obs"])
                          for st in steps[: r["n"]]]
                cnt, rs = empirical(e_hist, 4, 3)
                if cnt[s, ac].sum() == 0:
                    res.violation("C14/dynaq/planning_unvisited",
                                  f"planning update for never-visited ({s},{ac})")
                    return res
                best = np.flatnonzero(cnt[s, ac] == cnt[s, ac].max())
                if s2 not in best.tolist():
                    res.violation(
                        "C14/dynaq/planning_successor",
                        f"planning replayed ({s},{ac}) -> {s2}; most frequent "
                        f"observed successor(s): {best.tolist()} "
                        f"(counts {cnt[s, ac].tolist()})")
                    return res
                m = float(np.mean(rs[(s, ac, s2)]))
                if abs(rew - m) > 1e-5 * (1 + abs(m)):
                    res.violation("C14/dynaq/planning_reward",
                                  f"planning reward {rew!r}, empirical mean {m!r}")
                    return res
                res.see("planning_updates_checked")
            res.see("in_loop_updates_checked")
            continue
        term = bool(a["terminated"])
        s, ac = int(a["observation"]), int(a["action"])
        s2, rew = int(a["next_observation"]), float(a["reward"])
        if not check_inputs(res, algo, steps, r["n"], s, ac, rew, s2, term):
            return res
        if algo == "double_q_learning":
            q_old, q2 = a["q_table1"], a["q_table2"]
            a2 = None
        else:
            q_old, q2 = a["q_table"], None
            a2 = int(a["next_action"])
        tg = targets_for(algo, q_old, q2, rew, gamma, term, s2, a2)
        if not check_update(res, algo, q_old, np.asarray(r["out"]), s, ac, tg, lr,
                            f"in train_{algo}, env step {r['n']}"):
            return res
        res.see("in_loop_updates_checked")
        nontrivial |= term
        hist.append((s, ac, rew, s2))
    if algo == "dynaq":
        for n, T, R in models[-10:]:
            e_hist = [(st["prev"], st["action"], st["reward"], st["obs"])
                      for st in steps[:n]]

            class M:
                transition, reward = T, R

            if not check_model(res, M, e_hist, 4, 3,
                               f"in train_dynaq after env step {n}"):
                return res
        nontrivial = True
    res.nontrivial = nontrivial
    res.state((algo, "loop"))
    return res
