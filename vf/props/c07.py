"""C07 - return and advantage estimates obey their recurrences and are causal.

float64 reference recurrences + bitwise perturbation oracles on the real
functions; PPO's advantages are captured inside the real update_ppo (rebound
compute_gae + ordered debug callback) fed by the real collect_trajectories on a
scripted vector environment.
"""

import numpy as np

from vf.core import Result, guarded
from vf.loop import rebound

ID = "C07"
RULE = (
    "reward-to-go / n-step return / GAE on sequences of length 1..40 with "
    "termination at first / last / several / no steps, gamma, lambda in "
    "{0,0.5,0.95,1}; perturbation of data that must not matter (pre-t, "
    "post-terminal, other environments / episodes) with bitwise comparison on "
    "compute_gae, prepare_a2c_batch, EpisodeDataset.prepare_policy_gradient_"
    "dataset, discounted_n_step_return, mrq_loss, model_based_encoder_loss; "
    "PPO advantages captured inside update_ppo for 1-4 environments x rollout "
    "2-8 with and without logger. Non-trivial = case containing >=1 terminated "
    "step that is not the last and >=1 perturbation comparison; distinct by "
    "(function, shape, seed)"
)
REQUIRED = {
    "recurrence_values_checked": 500, "perturbation_comparisons": 100,
    "ppo_env_rollouts_checked": 6, "a2c_envs_checked": 6,
    "subtrajectory_loss_perturbations": 5,
    "datasets_with_inner_one_step_episodes": 2,
}
TIMEOUT = {"quick": 1200, "thorough": 7000}
ASSUMPTIONS = ["truncation does not cut accumulation (the statement says "
               "'terminated')", "-0.0 == 0.0 counts as equal"]

GAMMAS = [0.0, 0.5, 0.95, 1.0]


def gen_cases(tier, seed):
    rng = np.random.default_rng(seed + 707)
    k = 1 if tier == "quick" else 40
    cases = []
    for i in range(24 * k):
        cases.append(dict(kind="rtg", seed=int(rng.integers(1 << 30)), cost=0.3))
        cases.append(dict(kind="nstep", seed=int(rng.integers(1 << 30)), cost=0.5))
    for T in ([1, 2, 5, 17, 40] if tier == "quick" else
              [1, 2, 3, 5, 8, 17, 29, 40]):
        for r in range(3 * k):
            cases.append(dict(kind="gae", T=T, seed=int(rng.integers(1 << 30)),
                              cost=1))
    for i in range(6 * k):
        cases.append(dict(kind="a2c", N=int(rng.integers(1, 5)),
                          T=int(rng.integers(1, 9)),
                          seed=int(rng.integers(1 << 30)), cost=3))
        cases.append(dict(kind="dataset", inner1=bool(i % 2 == 0),
                          seed=int(rng.integers(1 << 30)), cost=1))
    for i in range(6 * k):
        cases.append(dict(kind="ppo", N=int(rng.integers(1, 5)),
                          T=int(rng.integers(2, 9)), logger=bool(i % 2),
                          seed=int(rng.integers(1 << 20)), cost=8))
    for i in range(6 * k):
        cases.append(dict(kind="mrq", h=int(rng.integers(1, 6)),
                          seed=int(rng.integers(1 << 30)), cost=6))
        cases.append(dict(kind="encoder", h=int(rng.integers(1, 5)),
                          seed=int(rng.integers(1 << 30)), cost=8))
    return cases


def run_case(case):
    return globals()["run_" + case["kind"]](case)


def term_pattern(rng, T):
    kind = rng.integers(6)
    t = np.zeros(T, dtype=np.int32)
    if kind == 0:
        pass
    elif kind == 1:
        t[0] = 1
    elif kind == 2:
        t[-1] = 1
    elif kind == 3:
        t[rng.integers(T)] = 1
    else:
        t = (rng.random(T) < 0.3).astype(np.int32)
    return t


def same_bits(a, b):
    a, b = np.asarray(a), np.asarray(b)
    return a.shape == b.shape and np.array_equal(a + 0.0, b + 0.0)


def gae_ref(r, v, nv, term, gamma, lam):
    T = len(r)
    adv = np.zeros(T)
    g = 0.0
    for t in reversed(range(T)):
        nd = 1.0 - term[t]
        delta = r[t] + gamma * nv[t] * nd - v[t]
        g = delta + gamma * lam * nd * g
        adv[t] = g
    return adv, adv + v


# ----------------------------------------------------------------- reward to go
def run_rtg(case):
    res = Result()
    from rl_blox.algorithm.reinforce import discounted_reward_to_go

    rng = np.random.default_rng(case["seed"])
    T = int(rng.choice([1, 2, 3, 10, 40]))
    gamma = float(rng.choice(GAMMAS + [rng.uniform()]))
    r = (rng.normal(size=T) * 10 ** rng.uniform(-2, 2)).tolist()
    kind = int(rng.integers(5))
    if kind == 1:      # integer rewards (grid worlds, Taxi, sparse +-1 tasks)
        r = [int(x) for x in rng.integers(-3, 21, size=T)]
    elif kind == 2:    # NumPy integer scalars, as environments return them
        r = [np.int64(x) for x in rng.integers(-3, 21, size=T)]
    elif kind == 3:    # booleans / float32 scalars
        r = [bool(x) for x in rng.integers(0, 2, size=T)] if rng.random() < 0.5 \
            else [np.float32(x) for x in rng.normal(size=T)]
    ok, out = guarded(res, "C07/raises/discounted_reward_to_go",
                      discounted_reward_to_go, r, gamma)
    if not ok:
        return res
    out = np.asarray(out, dtype=float)
    ref = np.zeros(T)
    acc = 0.0
    for t in reversed(range(T)):
        acc = float(r[t]) + gamma * acc
        ref[t] = acc
    # float32 reward scalars are accumulated in float32 (NumPy's weak python
    # scalars): tolerance of the input precision
    f32 = kind == 3 and isinstance(r[0], np.float32)
    tol = (2e-5 if f32 else 1e-9) * max(1.0, float(np.max(np.abs(ref))))
    if out.shape != (T,) or not np.allclose(out, ref, rtol=1e-6, atol=tol):
        res.violation("C07/reward_to_go/recurrence", "reward-to-go differs from "
                      "R_t = r_t + gamma R_{t+1}", {"got": out, "want": ref})
    res.see("recurrence_values_checked", T)
    if T > 1:
        t0 = int(rng.integers(1, T))
        r2 = list(r)
        for j in range(t0):
            r2[j] = type(r[j])(rng.integers(-50, 50)) if kind in (1, 2) else \
                float(rng.normal() * 100)
        out2 = np.asarray(discounted_reward_to_go(r2, gamma), dtype=float)
        if not same_bits(out[t0:], out2[t0:]):
            res.violation("C07/reward_to_go/not_causal", "estimate at t changed "
                          "when only rewards before t changed")
        res.see("perturbation_comparisons")
    res.nontrivial = T > 1
    return res


# ----------------------------------------------------------------- n-step
def run_nstep(case):
    res = Result()
    import jax.numpy as jnp

    from rl_blox.blox.return_estimates import discounted_n_step_return

    rng = np.random.default_rng(case["seed"])
    B, h = int(rng.choice([1, 2, 4])), int(rng.choice([1, 2, 3, 5]))
    gamma = float(rng.choice(GAMMAS))
    r = rng.normal(size=(B, h)).astype(np.float32)
    term = np.stack([term_pattern(rng, h) for _ in range(B)])
    f = lambda rr, tt: discounted_n_step_return(  # noqa: E731
        jnp.asarray(rr), jnp.asarray(tt), gamma)
    ok, out = guarded(res, "C07/raises/discounted_n_step_return", f, r, term)
    if not ok:
        return res
    R, D = np.asarray(out[0], float), np.asarray(out[1], float)
    refR, refD = np.zeros(B), np.ones(B)
    for b in range(B):
        d = 1.0
        for t in range(h):
            refR[b] += d * float(r[b, t])
            d *= gamma * (1 - term[b, t])
        refD[b] = d
    if not (np.allclose(R, refR, rtol=2e-5, atol=1e-6)
            and np.allclose(D, refD, rtol=2e-5, atol=1e-7)):
        res.violation("C07/n_step/recurrence", "n-step return / residual discount "
                      "differ from the recurrence",
                      {"R": R, "refR": refR, "D": D, "refD": refD,
                       "term": term, "gamma": gamma})
    res.see("recurrence_values_checked", 2 * B)
    # post-terminal data and other rows must not matter
    r2, t2 = r.copy(), term.copy()
    touched = False
    for b in range(B):
        nz = np.nonzero(term[b])[0]
        if len(nz) and nz[0] + 1 < h:
            r2[b, nz[0] + 1:] = rng.normal(size=h - nz[0] - 1) * 50
            t2[b, nz[0] + 1:] = rng.integers(0, 2, size=h - nz[0] - 1)
            touched = True
    if touched:
        o2 = f(r2, t2)
        if not (same_bits(out[0], o2[0]) and same_bits(out[1], o2[1])):
            res.violation("C07/n_step/post_terminal_leak", "n-step estimate changed "
                          "when only data after the first terminated step changed",
                          {"term": term})
        res.see("perturbation_comparisons")
    if B > 1:
        r3 = r.copy()
        r3[1:] = rng.normal(size=(B - 1, h))
        o3 = f(r3, term)
        if not same_bits(np.asarray(out[0])[0], np.asarray(o3[0])[0]):
            res.violation("C07/n_step/cross_row", "row 0 changed when other rows "
                          "changed")
        res.see("perturbation_comparisons")
    res.nontrivial = touched
    return res


# ----------------------------------------------------------------- GAE
def run_gae(case):
    res = Result()
    import jax.numpy as jnp

    from rl_blox.blox.gae import compute_gae

    rng = np.random.default_rng(case["seed"])
    T = case["T"]
    nontrivial = False
    for rep in range(6):
        gamma = float(rng.choice(GAMMAS))
        lam = float(rng.choice(GAMMAS))
        r = rng.normal(size=T).astype(np.float32)
        v = rng.normal(size=T).astype(np.float32)
        nv = rng.normal(size=T).astype(np.float32)
        term = term_pattern(rng, T)
        f = lambda a, b, c, d: compute_gae(  # noqa: E731
            jnp.asarray(a), jnp.asarray(b), jnp.asarray(c), jnp.asarray(d),
            gamma, lam)
        ok, out = guarded(res, "C07/raises/compute_gae", f, r, v, nv, term)
        if not ok:
            return res
        adv, ret = np.asarray(out[0], float), np.asarray(out[1], float)
        radv, rret = gae_ref(r.astype(float), v.astype(float), nv.astype(float),
                             term, gamma, lam)
        scale = max(1.0, np.max(np.abs(radv)))
        if not (np.allclose(adv, radv, rtol=1e-4, atol=1e-5 * scale)
                and np.allclose(ret, rret, rtol=1e-4, atol=1e-5 * scale)):
            res.violation("C07/gae/recurrence", "GAE differs from its recurrence",
                          {"adv": adv, "ref": radv, "term": term, "gamma": gamma,
                           "lambda": lam})
            return res
        res.see("recurrence_values_checked", 2 * T)
        # causality: data before t must not matter for t
        if T > 1:
            t0 = int(rng.integers(1, T))
            r2, v2, nv2, tm2 = r.copy(), v.copy(), nv.copy(), term.copy()
            r2[:t0] = rng.normal(size=t0) * 30
            v2[:t0] = rng.normal(size=t0) * 30
            nv2[:t0] = rng.normal(size=t0) * 30
            tm2[:t0] = rng.integers(0, 2, size=t0)
            o2 = f(r2, v2, nv2, tm2)
            if not same_bits(np.asarray(out[0])[t0:], np.asarray(o2[0])[t0:]):
                res.violation("C07/gae/not_causal", "advantage at t changed when "
                              "only data before t changed")
                return res
            res.see("perturbation_comparisons")
        nz = np.nonzero(term)[0]
        if len(nz) and nz[0] + 1 < T:
            k = nz[0]
            r3, v3, nv3, tm3 = r.copy(), v.copy(), nv.copy(), term.copy()
            r3[k + 1:] = rng.normal(size=T - k - 1) * 30
            v3[k + 1:] = rng.normal(size=T - k - 1) * 30
            nv3[k + 1:] = rng.normal(size=T - k - 1) * 30
            tm3[k + 1:] = rng.integers(0, 2, size=T - k - 1)
            nv3[k] = 123.0  # bootstrap value of the terminated step itself
            o3 = f(r3, v3, nv3, tm3)
            if not same_bits(np.asarray(out[0])[:k + 1], np.asarray(o3[0])[:k + 1]):
                res.violation("C07/gae/post_terminal_leak", "advantages up to the "
                              "first terminated step changed when only later data "
                              "(or the terminal bootstrap value) changed",
                              {"term": term, "gamma": gamma, "lambda": lam})
                return res
            res.see("perturbation_comparisons")
            nontrivial = True
    res.nontrivial = nontrivial
    res.state(("gae", T))
    return res


# ----------------------------------------------------------------- A2C batch
def run_a2c(case):
    res = Result()
    import gymnasium as gym
    import jax.numpy as jnp
    from flax import nnx

    from rl_blox.algorithm.a2c import prepare_a2c_batch
    from rl_blox.blox.function_approximator.mlp import MLP
    from rl_blox.blox.replay_buffer import ReplayBuffer

    rng = np.random.default_rng(case["seed"])
    N, T = case["N"], case["T"]
    gamma, lam = float(rng.choice(GAMMAS)), float(rng.choice(GAMMAS))
    vf = MLP(3, 1, [8], "tanh", nnx.Rngs(int(rng.integers(1000))))
    space = gym.spaces.Box(-1, 1, (2,))

    def build(obs, act, rew, term):
        buf = ReplayBuffer(T, keys=["obs", "actions", "rewards", "terminations",
                                    "truncations"],
                           dtypes=[float, float, float, int, int])
        for t in range(T):
            buf.add_sample(obs=obs[t], actions=act[t], rewards=rew[t],
                           terminations=term[t], truncations=np.zeros(N, int))
        return buf

    obs = rng.normal(size=(T, N, 3))
    act = rng.normal(size=(T, N, 2))
    rew = rng.normal(size=(T, N))
    term = np.stack([term_pattern(rng, T) for _ in range(N)], axis=1)
    last = rng.normal(size=(N, 3))
    call = lambda o, a, r, tm, lo: prepare_a2c_batch(  # noqa: E731
        build(o, a, r, tm), vf, jnp.asarray(lo, dtype=jnp.float32), space,
        gamma, lam)
    ok, out = guarded(res, "C07/raises/prepare_a2c_batch", call, obs, act, rew,
                      term, last)
    if not ok:
        return res
    fo, fa, fadv, fret = [np.asarray(x, float) for x in out]
    if fadv.shape != (T * N,):
        res.violation("C07/a2c/shape", f"advantages shape {fadv.shape}")
        return res
    adv = fadv.reshape(T, N)
    vals = np.asarray(vf(jnp.asarray(obs.reshape(-1, 3), dtype=jnp.float32)),
                      float).reshape(T, N)
    lastv = np.asarray(vf(jnp.asarray(last, dtype=jnp.float32)), float).reshape(N)
    for n in range(N):
        nv = np.concatenate([vals[1:, n], lastv[n:n + 1]])
        radv, _ = gae_ref(rew[:, n].astype(np.float32).astype(float), vals[:, n],
                          nv, term[:, n], gamma, lam)
        scale = max(1.0, np.max(np.abs(radv)))
        if not np.allclose(adv[:, n], radv, rtol=2e-4, atol=2e-5 * scale):
            res.violation("C07/a2c/per_env_gae", f"environment {n}: advantages "
                          f"differ from the GAE of its own rollout",
                          {"got": adv[:, n], "want": radv, "term": term[:, n]})
            return res
        res.see("a2c_envs_checked")
        res.see("recurrence_values_checked", T)
    if N > 1:
        rew2, term2 = rew.copy(), term.copy()
        rew2[:, 1:] = rng.normal(size=(T, N - 1)) * 20
        term2[:, 1:] = rng.integers(0, 2, size=(T, N - 1))
        out2 = call(obs, act, rew2, term2, last)
        a2 = np.asarray(out2[2], float).reshape(T, N)
        if not same_bits(adv[:, 0], a2[:, 0]):
            res.violation("C07/a2c/cross_env", "environment 0's advantages changed "
                          "when only other environments' rewards/flags changed")
        res.see("perturbation_comparisons")
    res.nontrivial = bool(np.any(term[:-1])) and N > 1
    res.state(("a2c", N, T))
    return res


def run_dataset(case):
    res = Result()
    import gymnasium as gym

    from rl_blox.algorithm.reinforce import EpisodeDataset

    rng = np.random.default_rng(case["seed"])
    gamma = float(rng.choice(GAMMAS + [0.9]))
    lens = [int(x) for x in rng.integers(1, 7, size=int(rng.integers(1, 5)))]
    if case.get("inner1"):
        # one-step episodes followed by another episode (round 9: episode
        # boundaries recognised by a falling step index miss 0 -> 0)
        pos = int(rng.integers(0, len(lens)))
        lens[pos:pos] = [1] * int(rng.integers(1, 3))
        res.see("datasets_with_inner_one_step_episodes")

    def build(rews):
        ds = EpisodeDataset()
        g = 0
        for L in lens:
            ds.start_episode()
            for t in range(L):
                ds.add_sample(np.array([g, t], float), np.array([0.5]),
                              np.array([g, t + 1], float), rews[g])
                g += 1
        return ds

    n = sum(lens)
    rews = rng.normal(size=n).tolist()
    if rng.random() < 0.4:
        rews = [int(x) for x in rng.integers(-2, 11, size=n)]
    space = gym.spaces.Box(-1, 1, (1,))
    ok, out = guarded(res, "C07/raises/prepare_policy_gradient_dataset",
                      lambda: build(rews).prepare_policy_gradient_dataset(space, gamma))
    if not ok:
        return res
    returns, gd = np.asarray(out[3], float), np.asarray(out[4], float)
    ref, refd = [], []
    g = 0
    for L in lens:
        acc = 0.0
        seg = []
        for t in reversed(range(L)):
            acc = rews[g + t] + gamma * acc
            seg.append(acc)
        ref += seg[::-1]
        refd += [gamma ** t for t in range(L)]
        g += L
    if not (np.allclose(returns, ref, rtol=2e-5, atol=1e-6)
            and np.allclose(gd, refd, rtol=2e-5)):
        res.violation("C07/dataset/recurrence", "per-episode reward-to-go / "
                      "discount differ from the reference",
                      {"lens": lens, "got": returns, "want": ref})
    res.see("recurrence_values_checked", n)
    if len(lens) > 1:
        r2 = list(rews)
        for j in range(lens[0], n):
            r2[j] = float(rng.normal() * 40)
        out2 = build(r2).prepare_policy_gradient_dataset(space, gamma)
        if not same_bits(np.asarray(out[3])[:lens[0]], np.asarray(out2[3])[:lens[0]]):
            res.violation("C07/dataset/cross_episode", "first episode's returns "
                          "changed when only later episodes' rewards changed")
        res.see("perturbation_comparisons")
    res.nontrivial = len(lens) > 1
    return res


# ----------------------------------------------------------------- PPO
def run_ppo(case):
    res = Result()
    import jax
    import jax.numpy as jnp

    from rl_blox.algorithm import ppo as ppomod
    from vf.algos import make_run
    from vf.props.c11 import make_script

    rng = np.random.default_rng(case["seed"])
    N, T = case["N"], case["T"]
    cfg = dict(scripts=[make_script(rng, 4) for _ in range(N)], n_envs=N,
               iterations=2, rollout=T, seed=case["seed"], logger=case["logger"],
               snapshots=False)
    run = make_run("ppo", cfg)
    tr = run.trace
    captured = []   # inputs seen at the update_ppo boundary (concrete)
    advs = []       # advantages / returns handed to the loss (traced -> callback)
    orig_update = ppomod.update_ppo
    orig_loss = ppomod.ppo_loss

    def update_ppo(actor, critic_, opt_a, opt_c, observation, action, reward,
                   terminated, next_value, *a, **kw):
        captured.append(dict(
            r=np.array(reward), tm=np.array(terminated), nv=np.array(next_value),
            v=np.array(critic_(observation)).reshape(-1)))
        return orig_update(actor, critic_, opt_a, opt_c, observation, action,
                           reward, terminated, next_value, *a, **kw)

    def ppo_loss(actor, critic_, old_logps, observations, actions, advantages,
                 returns, *a, **kw):
        def rec(adv, ret):
            advs.append((np.array(adv), np.array(ret)))

        jax.debug.callback(rec, advantages, returns, ordered=True)
        return orig_loss(actor, critic_, old_logps, observations, actions,
                         advantages, returns, *a, **kw)

    critic = run.extra["critic"]
    pre = []  # event ranges of each rollout
    orig_collect = ppomod.collect_trajectories

    def collect(*a, **kw):
        i0 = len(tr.events)
        out = orig_collect(*a, **kw)
        pre.append((i0, len(tr.events)))
        return out

    with rebound([(ppomod, "update_ppo", update_ppo),
                  (ppomod, "ppo_loss", ppo_loss),
                  (ppomod, "collect_trajectories", collect)]):
        ok, _ = guarded(res, "C07/raises/train_ppo", run.call)
    if not ok:
        return res
    jax.effects_barrier()
    if len(captured) != cfg["iterations"] or len(advs) < cfg["iterations"]:
        res.violation("C07/ppo/not_observed", f"update observed {len(captured)} "
                      f"times, loss {len(advs)} times for {cfg['iterations']} "
                      f"iterations")
        return res
    # one loss evaluation per epoch (epochs=1): i-th loss call <-> i-th update
    for cap, (adv, ret) in zip(captured, advs):
        cap["adv"], cap["ret"] = adv, ret
    gamma, lam = 0.99, 0.95
    for it, ((i0, i1), cap) in enumerate(zip(pre, captured)):
        vsteps = [e for e in tr.events[i0:i1] if e["k"] == "vstep"]
        if len(vsteps) != T or cap["adv"].shape != (N * T,):
            res.violation("C07/ppo/shape", "unexpected rollout shape")
            return res
        for n in range(N):
            sl = slice(n * T, (n + 1) * T)
            r = np.array([e["reward"][n] for e in vsteps], float)
            tm = np.array([e["terminated"][n] for e in vsteps], int)
            if not (np.allclose(cap["r"][sl], r, rtol=1e-6)
                    and np.array_equal(cap["tm"][sl].astype(int), tm)):
                res.violation("C07/ppo/row_layout", f"rows of environment {n} in "
                              f"the GAE input are not that environment's rollout")
                return res
            radv, _ = gae_ref(cap["r"][sl].astype(float), cap["v"][sl].astype(float),
                              cap["nv"][sl].astype(float), tm, gamma, lam)
            got = cap["adv"][sl].astype(float)
            scale = max(1.0, np.max(np.abs(radv)))
            if not np.allclose(got, radv, rtol=2e-4, atol=2e-5 * scale):
                res.violation(
                    "C07/ppo/gae_crosses_environments",
                    f"PPO iteration {it}: advantages of environment {n} differ "
                    f"from the GAE of its own rollout (N={N}, T={T}): the scan "
                    f"runs over the environment-major flattened batch",
                    {"got": got, "own_rollout_gae": radv, "terminated": tm})
                return res
            res.see("ppo_env_rollouts_checked")
            res.see("recurrence_values_checked", T)
        # the bootstrap value of row (n, t) must be a function of environment
        # n's own data: critic(next obs) or critic(final obs of n)
        if it == 0:
            for t, e in enumerate(vsteps):
                cands = [e["obs"]]
                if e["final_obs"] is not None:
                    fo = np.array(e["obs"], copy=True)
                    for n in range(N):
                        if e["final_mask"][n] and e["final_obs"][n] is not None:
                            fo[n] = e["final_obs"][n]
                    cands.append(fo)
                vals = [np.asarray(critic_at_start(run, c), float) for c in cands]
                for n in range(N):
                    got = float(cap["nv"][n * T + t])
                    if not any(abs(got - float(v[n])) <= 1e-5 * max(1, abs(got))
                               for v in vals):
                        res.violation(
                            "C07/ppo/bootstrap_from_other_environment",
                            f"bootstrap value of environment {n} at rollout step "
                            f"{t} is neither V(next obs) nor V(final obs) of that "
                            f"environment (logger={case['logger']})",
                            {"got": got, "candidates": [float(v[n]) for v in vals],
                             "finished": e["final_mask"]})
                        return res
                res.see("ppo_bootstrap_rows_checked", N)
    res.nontrivial = N > 1
    res.state(("ppo", N, T, case["logger"]))
    del jnp
    return res


_CRITIC0 = {}


def critic_at_start(run, obs):
    """V(obs) with the critic parameters before the first update: rebuild the
    critic from the same seed (deterministic initialisation)."""
    import jax.numpy as jnp
    from flax import nnx

    from rl_blox.blox.function_approximator.mlp import MLP

    key = run.cfg["seed"]
    if key not in _CRITIC0:
        _CRITIC0.clear()
        _CRITIC0[key] = MLP(3, 1, [8], "relu", nnx.Rngs(key + 1))
    return np.asarray(_CRITIC0[key](jnp.asarray(obs, dtype=jnp.float32))).reshape(-1)


# ----------------------------------------------------------------- MR.Q
def _mrq_parts(seed):
    import gymnasium as gym

    from rl_blox.algorithm import mrq

    space = gym.spaces.Box(np.array([-1.0, 0.0], np.float32),
                           np.array([1.0, 2.0], np.float32))

    class E:
        observation_space = gym.spaces.Box(-np.inf, np.inf, (3,), np.float32)
        action_space = space

    st = mrq.create_mrq_state(E(), policy_hidden_nodes=[8], q_hidden_nodes=[8],
                              encoder_n_bins=9, encoder_zs_dim=6, encoder_za_dim=4,
                              encoder_zsa_dim=6, encoder_hidden_nodes=[8],
                              encoder_activation_in_last_layer=bool(seed % 2),
                              seed=seed)
    return st


def run_mrq(case):
    res = Result()
    import jax.numpy as jnp
    from flax import nnx

    from rl_blox.algorithm.mrq import mrq_loss
    from rl_blox.blox.replay_buffer import SubtrajectoryReplayBuffer

    rng = np.random.default_rng(case["seed"])
    h, B = case["h"], 4
    st = _mrq_parts(int(rng.integers(1000)))
    enc = st.policy_with_encoder.encoder
    enc_t = nnx.clone(enc)
    q, q_t = st.q, nnx.clone(st.q)
    Batch = SubtrajectoryReplayBuffer(4).Batch
    obs = rng.normal(size=(B, 3))
    act = rng.normal(size=(B, 2))
    rew = rng.normal(size=(B, h))
    nobs = rng.normal(size=(B, 3))
    term = np.stack([term_pattern(rng, h) for _ in range(B)])
    nact = rng.normal(size=(B, 2))
    gamma = float(rng.choice([0.5, 0.95, 1.0]))
    j = lambda a: jnp.asarray(a, dtype=jnp.float32)  # noqa: E731

    def call(rew_, nobs_, term_, nact_):
        batch = Batch(j(obs), j(act), j(rew_), j(nobs_), jnp.asarray(term_),
                      jnp.zeros_like(jnp.asarray(term_)))
        return mrq_loss(q, q_t, enc, enc_t, j(nact_), batch, gamma, 1.3, 0.7)

    ok, out = guarded(res, "C07/raises/mrq_loss", call, rew, nobs, term, nact)
    if not ok:
        return res
    rew2, nobs2, term2, nact2 = rew.copy(), nobs.copy(), term.copy(), nact.copy()
    touched = False
    for b in range(B):
        nz = np.nonzero(term[b])[0]
        if len(nz):
            k = nz[0]
            rew2[b, k + 1:] = rng.normal(size=h - k - 1) * 30
            term2[b, k + 1:] = rng.integers(0, 2, size=h - k - 1)
            nobs2[b] = rng.normal(size=3) * 5
            nact2[b] = rng.normal(size=2)
            touched = True
    if touched:
        out2 = call(rew2, nobs2, term2, nact2)
        if not (same_bits(out[0], out2[0]) and same_bits(out[1][2], out2[1][2])):
            res.violation("C07/mrq/post_terminal_leak", "MR.Q critic loss / TD "
                          "errors changed when only data after the first "
                          "terminated step (and its successor) changed",
                          {"term": term, "before": float(out[0]),
                           "after": float(out2[0])})
        res.see("subtrajectory_loss_perturbations")
        res.see("perturbation_comparisons")
    res.nontrivial = touched
    res.state(("mrq", h))
    return res


def run_encoder(case):
    res = Result()
    import jax.numpy as jnp
    from flax import nnx

    from rl_blox.blox.embedding.model_based_encoder import model_based_encoder_loss
    from rl_blox.blox.replay_buffer import SubtrajectoryReplayBuffer

    rng = np.random.default_rng(case["seed"])
    h, B = case["h"], 4
    st = _mrq_parts(int(rng.integers(1000)))
    enc = st.policy_with_encoder.encoder
    enc_t = nnx.clone(enc)
    Batch = SubtrajectoryReplayBuffer(4).Batch
    obs = rng.normal(size=(B, h, 3))
    act = rng.normal(size=(B, h, 2))
    rew = rng.normal(size=(B, h))
    nobs = rng.normal(size=(B, h, 3))
    term = np.stack([term_pattern(rng, h) for _ in range(B)])
    if not term[:, :-1].any() and h > 1:
        term[0, 0] = 1
    j = lambda a: jnp.asarray(a, dtype=jnp.float32)  # noqa: E731
    env_term = True

    def call(obs_, act_, rew_, nobs_, term_):
        batch = Batch(j(obs_), j(act_), j(rew_), j(nobs_), jnp.asarray(term_),
                      jnp.zeros_like(jnp.asarray(term_)))
        return model_based_encoder_loss(enc, enc_t, st.the_bins, batch, h, 1.0,
                                        0.1, 0.1, env_term, True)

    ok, out = guarded(res, "C07/raises/model_based_encoder_loss", call, obs, act,
                      rew, nobs, term)
    if not ok:
        return res
    o2, a2, r2, n2, t2 = obs.copy(), act.copy(), rew.copy(), nobs.copy(), term.copy()
    touched = False
    for b in range(B):
        nz = np.nonzero(term[b])[0]
        if len(nz) and nz[0] + 1 < h:
            k = nz[0]
            m = h - k - 1
            o2[b, k + 1:] = rng.normal(size=(m, 3)) * 3
            a2[b, k + 1:] = rng.normal(size=(m, 2)) * 3
            r2[b, k + 1:] = rng.normal(size=m) * 3
            n2[b, k + 1:] = rng.normal(size=(m, 3)) * 3
            t2[b, k + 1:] = 1 - t2[b, k + 1:]
            touched = True
    if touched:
        out2 = call(o2, a2, r2, n2, t2)
        names = ["total", "dynamics", "reward", "done"]
        got = [out[0], out[1][0], out[1][1], out[1][2]]
        got2 = [out2[0], out2[1][0], out2[1][1], out2[1][2]]
        for nm, x, y in zip(names, got, got2):
            if not same_bits(x, y):
                res.violation(
                    f"C07/encoder/post_terminal_leak/{nm}",
                    f"encoder {nm} loss changed when only rows after the first "
                    f"terminated step changed ({float(x)!r} -> {float(y)!r})",
                    {"term": term})
                break
        res.see("subtrajectory_loss_perturbations")
        res.see("perturbation_comparisons")
    res.nontrivial = touched
    res.state(("encoder", h))
    return res
