"""C09 - training is a deterministic function of seed, initial state and
environment.

Each run is a separate process computing a canonical digest.  Runs A and B use
equal seeds but scrambled ambient state (PYTHONHASHSEED, global NumPy / random
seeds, start time); their digests must be identical field by field.  Run C
(seed + 1) must differ (non-vacuity).
"""

import json
import os
import subprocess

import numpy as np

from vf.core import PY, ROOT, Result, worker_env

ID = "C09"
RULE = (
    "every training routine (tabular x5, DQN, Nature-DQN, DDQN, PER, DDPG, TD3, "
    "TD3+LAP, SAC, TD7, MR.Q, PETS, REINFORCE, actor-critic, A2C, PPO, CMA-ES, "
    "train_uts / train_smt / train_active_mt) on scripted environments and on "
    "seeded Gymnasium environments (Pendulum, CartPole, CliffWalking) with "
    "warm-up short enough that learning, prioritised sampling and target "
    "updates run; three fresh processes per configuration: A, B (equal seeds, "
    "different PYTHONHASHSEED / global RNG seeds / start times / process "
    "history: B first runs and discards another training run) and C (seed+1); "
    "half of the off-policy configurations are continued runs (global_step > 0). "
    "Non-trivial = configuration in which parameters changed during training "
    "and run C differs from run A; distinct by (routine, environment, seed)"
)
REQUIRED = {"configurations_compared": 28, "digest_fields_compared": 300,
            "configurations_where_seed_matters": 20}
TIMEOUT = {"quick": 1700, "thorough": 7000}
ASSUMPTIONS = ["run B executes another, discarded training run of the same "
               "routine (different seed, own objects) in its process before the "
               "measured one; run A does not",
               "np.empty is replaced by a version that fills the (unspecified) "
               "memory with a run-dependent value, so reads of uninitialised "
               "memory become visible as non-determinism",
               "the environment (and its action-space sampler) is seeded by the "
               "harness before the call, as the statement requires",
               "XLA CPU with one intra-op thread"]

ALGOS = ["q_learning", "sarsa", "double_q_learning", "monte_carlo", "dynaq", "dqn",
         "nature_dqn", "ddqn", "per", "ddpg", "td3", "td3_lap", "sac", "td7", "mrq",
         "pets", "reinforce", "actor_critic", "a2c", "ppo", "cmaes", "sched:uts",
         "sched:smt", "sched:amt"]
GYM = [("ddpg", "Pendulum-v1", None), ("sac", "Pendulum-v1", None),
       ("td3_lap", "Pendulum-v1", None), ("ddqn", "CartPole-v1", None),
       ("per", "CartPole-v1", None), ("q_learning", "CliffWalking-v1", None),
       ("sarsa", "CliffWalking-v1", None),
       # environments behind a wrapper that defines its own action space
       ("pets", "Pendulum-v1", "rescale"), ("td3", "Pendulum-v1", "rescale"),
       ("sac", "Pendulum-v1", "rescale"), ("td7", "Pendulum-v1", "rescale"),
       ("mrq", "Pendulum-v1", "rescale")]
RESUMABLE = ("dqn", "nature_dqn", "ddqn", "per", "ddpg", "td3", "td3_lap", "sac",
             "td7", "mrq")
COST = {"mrq": 40, "pets": 30, "td7": 25, "dqn": 18, "ppo": 20, "dynaq": 15,
        "sac": 12, "sched:smt": 15, "sched:amt": 15, "sched:uts": 15}


def base_cfg(algo, seed, rng):
    cfg = dict(algo=algo, seed=seed, script=[[5, "T"], [7, "U"], [3, "T"], [9, "T"]],
               scripts=[[[4, "T"], [6, "U"]], [[3, "U"], [5, "T"]]],
               total_timesteps=int(rng.integers(45, 70)), learning_starts=8,
               batch_size=4, update_frequency=2, target_update_frequency=5,
               buffer_size=int(rng.choice([20, 500])), snapshots=False,
               low=[-1.0, 0.0], high=[1.0, 2.0], steps_per_update=8, rollout=4,
               iterations=3, total_episodes=None, lr=3e-2, n_envs=2,
               use_checkpoints=bool(rng.integers(2)), steps_before_checkpointing=15,
               target_delay=3)
    if algo == "cmaes":
        cfg["total_episodes"] = 8
        cfg["low"], cfg["high"] = [-1.0], [1.0]
    if algo in ("reinforce", "actor_critic", "a2c"):
        cfg["discrete"] = bool(rng.integers(2))
    if algo == "a2c":
        # vector environment that reuses one observation buffer
        cfg["inplace_obs"] = True
        cfg["steps_per_update"] = 1
    if rng.random() < 0.5:
        from vf.algos import random_options
        cfg["options"] = random_options(algo, rng)
    if algo in RESUMABLE and rng.random() < 0.5:
        # continued run: non-zero starting step count, absolute budget
        cfg["global_step"] = int(rng.integers(5, 12))
        cfg["total_timesteps"] += cfg["global_step"]
    return cfg


def gen_cases(tier, seed):
    rng = np.random.default_rng(seed + 909)
    cases = []
    reps = 1 if tier == "quick" else 8
    for r in range(reps):
        for algo in ALGOS:
            cases.append(dict(cfg=base_cfg(algo, int(rng.integers(1, 1 << 16)), rng),
                              cost=COST.get(algo, 8)))
        for algo, env_id, wrap in GYM:
            cfg = base_cfg(algo, int(rng.integers(1, 1 << 16)), rng)
            if algo in RESUMABLE and "global_step" not in cfg:
                cfg["global_step"] = 9
                cfg["total_timesteps"] += 9
            cfg["gym_env"] = env_id
            cfg["gym_wrap"] = wrap
            cfg["gym_max_steps"] = 17
            cfg["low"], cfg["high"] = [-2.0], [2.0]
            cases.append(dict(cfg=cfg, cost=COST.get(algo, 8)))
    return cases


def one_run(cfg, ambient, hashseed):
    env = worker_env()
    env["PYTHONHASHSEED"] = str(hashseed)
    c = dict(cfg, ambient=ambient)
    p = subprocess.run([PY, "-m", "vf.c09_run", json.dumps(c)], cwd=ROOT, env=env,
                       capture_output=True, text=True, timeout=900)
    for line in p.stdout.splitlines():
        if line.startswith("C09DIGEST "):
            return json.loads(line[len("C09DIGEST "):]), None
    return None, (p.stdout[-600:] + "\n" + p.stderr[-2500:])


def run_case(case):
    res = Result()
    cfg = case["cfg"]
    algo = cfg["algo"] + (":" + cfg["gym_env"] if cfg.get("gym_env") else "") + (
        "+" + cfg["gym_wrap"] if cfg.get("gym_wrap") else "")
    runs = []
    for ambient, hs, c in ((11, 1, cfg), (977, 4242, dict(cfg, prelude=True)),
                           (11, 1, dict(cfg, seed=cfg["seed"] + 1))):
        d, err = one_run(c, ambient, hs)
        if d is None:
            if "/rl_blox/" in err:
                res.violation(f"C09/raises/{algo}", f"training run failed: "
                              f"{err.strip().splitlines()[-1][:300]}",
                              {"stderr_tail": err.strip().splitlines()[-15:]})
                return res
            raise RuntimeError(f"sub-run failed without repository frames:\n{err}")
        runs.append(d)
    A, B, C = runs
    res.see("configurations_compared")
    fields = sorted(set(A) | set(B))
    for f in fields:
        if f == "tripwire":
            continue
        res.see("digest_fields_compared")
        if A.get(f) != B.get(f):
            res.violation(
                f"C09/not_reproducible/{algo}",
                f"{algo}: two runs with equal seeds (different PYTHONHASHSEED / "
                f"global RNG state / start time / process history / buffer "
                f"alignment) differ in '{f}'",
                {"field": f, "run_a": A.get(f), "run_b": B.get(f),
                 "global_rng_calls_from_repository": A.get("tripwire")})
            return res
    if A.get("tripwire"):
        res.see("global_rng_calls_seen")
        res.notes.append(f"{algo}: {A['tripwire'][:3]}")
    differs = [f for f in fields if f != "tripwire" and A.get(f) != C.get(f)]
    if differs:
        res.see("configurations_where_seed_matters")
    res.nontrivial = bool(differs)
    res.state((algo,))
    return res
