"""C18 - numeric building blocks: two-hot coding, robust losses, norms, schedules.

Direct drive of the real functions with generated inputs; float64 references
written from the statement; bitwise perturbation oracle for masked rows.
"""

import numpy as np

from vf.core import Result, guarded

ID = "C18"
RULE = (
    "two-hot: bins from make_two_hot_bins with exponent ranges up to +-20 "
    "(symmetric and asymmetric) and 2..201 edges, inputs = every edge, both "
    "extremes, 0, midpoints, random in-range values of both signs; CE vs "
    "-sum(target*log_softmax); Huber with delta 1e-3..1e3 on errors around 0, "
    "delta and far beyond; masked MSE with masked rows perturbed (bitwise); "
    "AvgL1 on vectors of 1..512 entries incl. 1e-30 and 0; linear schedules of "
    "length 1..10^4, fractions (0,1], both directions. Non-trivial = case whose "
    "inputs include at least one boundary value (bin edge / |e| = delta / "
    "masked row / near-zero vector / fraction*length not integral); distinct = "
    "distinct (function, parameters, seed)"
)
REQUIRED = {
    "two_hot_rows": 500, "two_hot_edge_rows": 50, "ce_rows": 100,
    "huber_values": 200, "masked_perturbations": 20, "avgl1_vectors": 50,
    "schedules": 30,
}
TIMEOUT = {"quick": 600, "thorough": 7000}
ASSUMPTIONS = ["float32 results are compared with float64 references within "
               "stated relative tolerances (2e-5 unless noted)"]


def gen_cases(tier, seed):
    rng = np.random.default_rng(seed + 1818)
    k = 1 if tier == "quick" else 50
    cases = []
    ranges = [(-10, 10), (-12, 12), (-5, 5), (0, 5), (-3, 8), (-1, 1), (-0.1, 0.1),
              (-19, 19), (-20, 20), (-3, 20), (-20, 2)]
    for lo, hi in ranges:
        for n in ([2, 3, 65, 101] if tier == "quick" else [2, 3, 4, 17, 65, 101, 201]):
            for r in range(k):
                cases.append(dict(kind="two_hot", lo=lo, hi=hi, n=n,
                                  seed=int(rng.integers(1 << 30))))
    for i in range(40 * k):
        cases.append(dict(kind="huber", seed=int(rng.integers(1 << 30))))
        cases.append(dict(kind="masked", seed=int(rng.integers(1 << 30))))
        cases.append(dict(kind="avgl1", seed=int(rng.integers(1 << 30))))
    for i in range(40 * k):
        cases.append(dict(kind="schedule", seed=int(rng.integers(1 << 30))))
    return cases


def run_case(case):
    return globals()["run_" + case["kind"]](case)


def run_two_hot(case):
    res = Result()
    import jax
    import jax.numpy as jnp

    from rl_blox.blox import preprocessing as pp

    rng = np.random.default_rng(case["seed"])
    ok, bins = guarded(res, "C18/raises/make_two_hot_bins", pp.make_two_hot_bins,
                       float(case["lo"]), float(case["hi"]), case["n"])
    if not ok:
        return res
    b = np.asarray(bins, dtype=np.float64)
    # the documented limits: symexp of the requested exponents (a call must not
    # depend on what was asked for earlier in the process: a second request with
    # the same number of edges and another range follows right here)
    def symexp(x):
        return np.sign(x) * (np.exp(np.abs(x)) - 1.0)
    lo_, hi_ = float(case["lo"]), float(case["hi"])
    other = np.asarray(pp.make_two_hot_bins(lo_ - 1.5, hi_ + 2.5, case["n"]),
                       np.float64)
    for got, (l2, h2) in ((b, (lo_, hi_)), (other, (lo_ - 1.5, hi_ + 2.5))):
        if len(got) == case["n"] and case["n"] >= 2 and not (
                np.isclose(got[0], symexp(l2), rtol=1e-4, atol=1e-6)
                and np.isclose(got[-1], symexp(h2), rtol=1e-4, atol=1e-6)):
            res.violation("C18/bins", f"make_two_hot_bins({l2}, {h2}, {case['n']}) "
                          f"spans [{got[0]!r}, {got[-1]!r}], symexp of the exponents "
                          f"is [{symexp(l2)!r}, {symexp(h2)!r}]")
            return res
    res.see("bin_ranges_checked", 2)
    if len(b) != case["n"] or np.any(np.diff(b) <= 0):
        res.violation("C18/bins", "bins not strictly increasing / wrong count",
                      {"bins": b})
        return res
    mids = (b[:-1] + b[1:]) / 2
    rnd = rng.uniform(b[0], b[-1], 40)
    small = rng.normal(size=20) * min(1.0, b[-1] - b[0])
    xs = np.concatenate([b, mids, rnd, small, [0.0, b[0], b[-1]]])
    xs = xs.astype(np.float32).astype(np.float64)
    xs = xs[(xs >= b[0]) & (xs <= b[-1])]
    # pad to a fixed number of rows per bin count (fewer jit shapes)
    ok, th = guarded(res, "C18/raises/two_hot_encoding", pp.two_hot_encoding,
                     bins, jnp.asarray(xs, dtype=jnp.float32))
    if not ok:
        return res
    th = np.asarray(th, dtype=np.float64)
    wide = max(abs(b[0]), abs(b[-1])) >= 1e8 / 2
    tag = "wide_range_sentinel" if wide else "two_hot"
    is_edge = np.isin(xs, b.astype(np.float32).astype(np.float64))
    for i, x in enumerate(xs):
        row = th[i]
        nz = np.nonzero(row)[0]
        bad = None
        if not np.all(np.isfinite(row)):
            bad = "non-finite entries"
        elif np.any(row < -1e-6):
            bad = "negative entry"
        elif abs(row.sum() - 1.0) > 1e-5:
            bad = f"row sums to {row.sum()!r}"
        elif len(nz) > 2 or (len(nz) == 2 and nz[1] - nz[0] != 1):
            bad = f"non-zeros at {nz.tolist()} (more than two or not adjacent)"
        else:
            dec = float(np.sum(row * b))
            j = int(np.clip(np.searchsorted(b, x, side="right") - 1, 0, len(b) - 2))
            scale = max(abs(b[j]), abs(b[j + 1]), 1e-6)
            if abs(dec - x) > 2e-5 * scale + 1e-7:
                bad = f"decodes to {dec!r} instead of {x!r}"
        if bad:
            res.violation(f"C18/{tag}/encoding",
                          f"two-hot of {x!r} with bins [{b[0]:.4g}..{b[-1]:.4g}] "
                          f"({len(b)} edges): {bad}",
                          {"row_nonzero": nz, "values": row[nz], "x": x,
                           "exponents": [case["lo"], case["hi"]]})
            break
        res.see("two_hot_rows")
        if is_edge[i]:
            res.see("two_hot_edge_rows")
    # decoding through the public function
    ok, dec = guarded(res, "C18/raises/two_hot_decoding", pp.two_hot_decoding,
                      bins, jnp.asarray(th, dtype=jnp.float32))
    # cross entropy
    logits = rng.normal(size=(len(xs), len(b))) * rng.choice([0.1, 1.0, 30.0])
    ok, ce = guarded(res, "C18/raises/two_hot_cross_entropy_loss",
                     pp.two_hot_cross_entropy_loss, bins,
                     jnp.asarray(logits, dtype=jnp.float32),
                     jnp.asarray(xs, dtype=jnp.float32))
    if ok and not res.viol:
        lg = logits.astype(np.float32).astype(np.float64)
        lse = np.log(np.sum(np.exp(lg - lg.max(1, keepdims=True)), 1)) + lg.max(1)
        ref = -np.sum(th * (lg - lse[:, None]), axis=1)
        ce = np.asarray(ce, dtype=np.float64)
        if ce.shape != ref.shape or not np.allclose(ce, ref, rtol=1e-4, atol=1e-4):
            res.violation(f"C18/{tag}/cross_entropy", "two-hot cross-entropy != "
                          "-sum(target*log_softmax(logits))",
                          {"got": ce[:5], "want": ref[:5]})
        res.see("ce_rows", len(xs))
    del jax
    res.nontrivial = bool(is_edge.any())
    res.state(("two_hot", case["lo"], case["hi"], case["n"]))
    return res


def run_huber(case):
    res = Result()
    import jax.numpy as jnp

    from rl_blox.blox.losses import huber_loss

    rng = np.random.default_rng(case["seed"])
    delta = float(10 ** rng.uniform(-3, 3))
    d32 = float(np.float32(delta))
    e = np.abs(np.concatenate([
        [0.0, d32, d32 * (1 - 1e-6), d32 * (1 + 1e-6), 1e-30, 1e6 * d32],
        rng.uniform(0, 3 * delta, 40), 10 ** rng.uniform(-8, 8, 18)]))
    e = e.astype(np.float32).astype(np.float64)
    ok, out = guarded(res, "C18/raises/huber_loss", huber_loss,
                      jnp.asarray(e, dtype=jnp.float32), delta)
    if not ok:
        return res
    out = np.asarray(out, dtype=np.float64)
    ref = np.where(e <= d32, 0.5 * e**2, d32 * (e - 0.5 * d32))
    if out.shape != ref.shape or not np.allclose(out, ref, rtol=3e-5, atol=1e-30):
        i = int(np.argmax(np.abs(out - ref) / (np.abs(ref) + 1e-30)))
        res.violation("C18/huber", f"huber_loss(|e|={e[i]!r}, delta={delta!r}) = "
                      f"{out[i]!r}, piecewise form gives {ref[i]!r}")
    res.see("huber_values", len(e))
    res.nontrivial = True
    return res


def run_masked(case):
    res = Result()
    import jax.numpy as jnp

    from rl_blox.blox.losses import masked_mse_loss

    rng = np.random.default_rng(case["seed"])
    n, f = int(rng.choice([1, 2, 3, 8])), int(rng.choice([1, 2, 5]))
    pred = rng.normal(size=(n, f)) * 10 ** rng.uniform(-2, 3)
    targ = rng.normal(size=(n, f))
    mask = (rng.random(n) < 0.6).astype(np.float32)
    if rng.random() < 0.2:
        mask[:] = 0
    if rng.random() < 0.2:
        mask[:] = 1
    j = lambda a: jnp.asarray(a, dtype=jnp.float32)  # noqa: E731
    ok, v = guarded(res, "C18/raises/masked_mse_loss", masked_mse_loss,
                    j(pred), j(targ), j(mask))
    if not ok:
        return res
    p32 = pred.astype(np.float32).astype(np.float64)
    t32 = targ.astype(np.float32).astype(np.float64)
    ref = np.mean((p32 - t32) ** 2 * mask[:, None])
    if np.ndim(v) != 0 or not np.isclose(float(v), ref, rtol=3e-5, atol=1e-12):
        res.violation("C18/masked_mse/value", f"masked MSE {float(v)!r} != "
                      f"mean(squared error * mask) {ref!r}",
                      {"mask": mask, "shape": [n, f]})
    if np.any(mask == 0):
        pred2, targ2 = pred.copy(), targ.copy()
        rows = mask == 0
        pred2[rows] = rng.normal(size=(int(rows.sum()), f)) * 1e4
        targ2[rows] = rng.normal(size=(int(rows.sum()), f)) * 1e4
        ok, v2 = guarded(res, "C18/raises/masked_mse_loss", masked_mse_loss,
                         j(pred2), j(targ2), j(mask))
        if ok and np.asarray(v2).tobytes() != np.asarray(v).tobytes():
            res.violation("C18/masked_mse/masked_row_leaks",
                          "masked loss changed when only masked rows changed",
                          {"before": float(v), "after": float(v2), "mask": mask})
        res.see("masked_perturbations")
    res.nontrivial = bool(np.any(mask == 0))
    return res


def run_avgl1(case):
    res = Result()
    import jax.numpy as jnp

    from rl_blox.blox.function_approximator.norm import avg_l1_norm

    rng = np.random.default_rng(case["seed"])
    n = int(rng.choice([1, 2, 3, 16, 64, 512]))
    rows = []
    for scale in (1.0, 1e-30, 1e-6, 1e6, 1e30, 0.0, 1e-9, 3e-8):
        rows.append(rng.normal(size=n) * scale)
    sp = np.zeros(n)
    sp[0] = 5.0
    rows.append(sp)
    x = np.stack(rows).astype(np.float32)
    batched = rng.random() < 0.5
    if batched:
        ok, y = guarded(res, "C18/raises/avg_l1_norm", avg_l1_norm, jnp.asarray(x))
        y = np.asarray(y, dtype=np.float64) if ok else None
    else:
        ys = []
        for r in x:
            ok, yy = guarded(res, "C18/raises/avg_l1_norm", avg_l1_norm,
                             jnp.asarray(r))
            if not ok:
                return res
            ys.append(np.asarray(yy, dtype=np.float64))
        y = np.stack(ys)
    if y is None:
        return res
    near_zero = False
    for r, out in zip(x.astype(np.float64), y):
        m = np.mean(np.abs(r))
        if not np.all(np.isfinite(out)):
            res.violation("C18/avgl1/non_finite", f"AvgL1Norm non-finite for input "
                          f"with mean |x| = {m!r}", {"x": r[:8]})
            break
        if m > 1.5e-8:
            if abs(np.mean(np.abs(out)) - 1.0) > 1e-4:
                res.violation("C18/avgl1/mean_abs", f"mean |AvgL1Norm(x)| = "
                              f"{np.mean(np.abs(out))!r} for mean |x| = {m!r}",
                              {"x": r[:8], "n": n})
                break
            if np.any(np.sign(out) != np.sign(r)):
                res.violation("C18/avgl1/direction", "sign pattern changed")
                break
        else:
            near_zero = True
        res.see("avgl1_vectors")
    res.nontrivial = near_zero
    return res


def run_schedule(case):
    res = Result()
    from rl_blox.blox.schedules import linear_schedule

    rng = np.random.default_rng(case["seed"])
    total = int(rng.choice([1, 2, 3, 10, 100, 1000, 10000,
                            int(rng.integers(1, 10001))]))
    frac = float(rng.choice([1.0, 0.1, 0.5, 1e-4, rng.uniform(1e-6, 1.0),
                             1.0 / total, 1.5 / total, 2.5 / total]))
    frac = min(max(frac, 1e-9), 1.0)
    start, end = (float(rng.choice([1.0, 0.0, 0.4, -3.0, rng.normal()])),
                  float(rng.choice([0.1, 1.0, 0.0, 7.0, rng.normal()])))
    # integer-typed arguments are valid numbers, too (end=1, start=0, ...)
    if rng.random() < 0.35 and end == int(end):
        end = int(end)
    if rng.random() < 0.2 and start == int(start):
        start = int(start)
    ok, s = guarded(res, "C18/raises/linear_schedule", linear_schedule,
                    total, start, end, frac)
    if not ok:
        return res
    s = np.asarray(s, dtype=np.float64)
    where = f"linear_schedule({total}, {start!r}, {end!r}, {frac!r})"
    e32, s32 = float(np.float32(end)), float(np.float32(start))
    if s.shape != (total,):
        res.violation("C18/schedule/length", f"{where}: shape {s.shape}")
        return res
    d = np.diff(s)
    tol = 1e-6 * max(abs(start), abs(end), 1e-3)
    if (start >= end and np.any(d > tol)) or (start <= end and np.any(d < -tol)):
        res.violation("C18/schedule/monotone", f"{where}: not monotone")
    span = total * frac
    # "spans at least one step": a transition of one whole step or more
    if (span >= 1 + 1e-9 or int(total * frac) >= 1) and abs(s[0] - s32) > tol:
        res.violation("C18/schedule/start", f"{where}: first value {s[0]!r}")
    after = int(np.ceil(span - 1e-9))
    if after < total and np.any(np.abs(s[after:] - e32) > 1e-7 * max(1, abs(e32))):
        res.violation("C18/schedule/tail", f"{where}: not at end value after the "
                      f"transition (index >= {after})",
                      {"tail": s[after:after + 5]})
    if total >= 1 and span >= 2 + 1e-9:
        k = int(span + 1e-9)
        if abs(s[k - 1] - e32) > tol and abs(span - round(span)) > 1e-6:
            pass  # last transition sample equals end by linspace; not demanded
    res.see("schedules")
    res.nontrivial = abs(span - round(span)) > 1e-9 or total == 1
    res.state(("sched", total, round(frac, 6)))
    return res
