"""C08 - prioritized replay samples proportionally and tracks priorities.

Shadow priority vector + exact cumulative-interval oracle (float64) for chosen
uniform variates; state checks after every operation.
"""

import numpy as np

from vf.core import Result, guarded
from vf.stubrng import StubRng

ID = "C08"
RULE = (
    "histories of add / sample / update-priority / reset-max on LAP, "
    "PrioritizedReplayBuffer (stratified), SubtrajectoryReplayBufferPER (masked) "
    "and the multi-task wrapper, capacity 1..10, priorities from {equal, 1e-6, "
    "1e6, random}, batch 1..40, beta in [0,1]; chosen variates: interval "
    "midpoints, points 1e-9 (relative) inside both interval ends, 2^-53 and "
    "1-2^-53; thorough adds empirical frequencies (real generator, 6 sigma). "
    "Non-trivial = case with >=1 priority update changing the distribution and "
    ">=1 interval-oracle comparison afterwards; distinct by (class, capacity, seed)"
)
REQUIRED = {
    "interval_oracle_draws": 200, "new_gets_max_checks": 50,
    "update_sets_exact_checks": 20, "reset_checks": 5, "is_weight_checks": 10,
    "priority_fn_checks": 10,
}
TIMEOUT = {"quick": 900, "thorough": 7000}
ASSUMPTIONS = [
    "the shadow model is advanced from the public API calls only; the buffer's "
    "priority array is read solely for the after-operation comparison",
    "domain: histories always hold >=1 admissible entry when sampling; "
    "variates are in the open interval (0,1)",
]

EDGE_U = [2.0**-53, 1.0 - 2.0**-53]


def gen_cases(tier, seed):
    rng = np.random.default_rng(seed + 8008)
    n = 600 if tier == "quick" else 40000
    cases = []
    for i in range(n):
        cases.append(dict(
            kind="hist",
            cls=["LAP", "PrioritizedReplayBuffer", "SubPER", "MultiLAP", "MultiPER",
                 "MultiSubPER"][i % 6],
            N=int(rng.integers(1, 11)), n_ops=int(rng.integers(15, 60)),
            seed=int(rng.integers(1 << 30)),
        ))
        if i % 12 == 0:
            # larger buffers: NumPy sums >= 8 elements pairwise, so totals
            # computed in two ways start to differ in the last bits
            cases[-1].update(N=int(rng.choice([40, 120])), n_ops=260, cost=6.0)
    for i in range(20 if tier == "quick" else 200):
        cases.append(dict(kind="prio_fn", seed=int(rng.integers(1 << 30))))
    if tier == "thorough":
        for i in range(48):
            cases.append(dict(kind="freq", cls=["LAP", "PrioritizedReplayBuffer",
                                                "SubPER"][i % 3],
                              seed=int(rng.integers(1 << 30)), cost=5.0))
    else:
        for i in range(6):
            cases.append(dict(kind="freq", cls=["LAP", "PrioritizedReplayBuffer",
                                                "SubPER"][i % 3],
                              seed=int(rng.integers(1 << 30)), cost=3.0))
    return cases


def run_case(case):
    if case["kind"] == "prio_fn":
        return run_prio_fn(case)
    if case["kind"] == "freq":
        return run_freq(case)
    return run_hist(case)


# ------------------------------------------------------------ priority fns
def run_prio_fn(case):
    res = Result()
    import jax.numpy as jnp

    from rl_blox.blox.replay_buffer import lap_priority, per_priority

    rng = np.random.default_rng(case["seed"])
    n = int(rng.integers(2, 60))
    e = np.sort(np.abs(np.concatenate([
        rng.normal(size=n) * 10 ** rng.uniform(-6, 4),
        [0.0, 1e-12, 1.0, 1.0, 1e6]])))
    alpha = float(rng.choice([0.0, 0.1, 0.4, 0.6, 1.0, rng.uniform(0.01, 1)]))
    minp = float(rng.choice([1.0, 0.1, 1e-3, 5.0]))
    eps = float(rng.choice([1e-6, 1e-2]))
    ok, lp = guarded(res, "C08/raises/lap_priority", lap_priority,
                     jnp.asarray(e, dtype=jnp.float32), minp, alpha)
    ok2, pp = guarded(res, "C08/raises/per_priority", per_priority,
                      jnp.asarray(e, dtype=jnp.float32), alpha, eps)
    for name, p in (("lap_priority", lp if ok else None),
                    ("per_priority", pp if ok2 else None)):
        if p is None:
            continue
        p = np.asarray(p, dtype=float)
        if not np.all(p > 0) or not np.all(np.isfinite(p)):
            res.violation(f"C08/priority_not_positive/{name}",
                          f"{name} gave non-positive/non-finite priority",
                          {"errors": e, "p": p})
        if np.any(np.diff(p) < -1e-6 * np.abs(p[1:])):
            res.violation(f"C08/priority_not_monotone/{name}",
                          f"{name} decreases in |td error|", {"errors": e, "p": p})
        res.see("priority_fn_checks")
    ref_l = np.maximum(e.astype(np.float32).astype(float), minp) ** alpha
    if ok and not np.allclose(np.asarray(lp, float), ref_l, rtol=1e-4):
        res.violation("C08/priority_value/lap_priority",
                      "lap_priority != max(|e|, p_min)^alpha",
                      {"got": lp, "want": ref_l})
    ref_p = e.astype(np.float32).astype(float) ** alpha + eps
    if ok2 and not np.allclose(np.asarray(pp, float), ref_p, rtol=1e-4):
        res.violation("C08/priority_value/per_priority",
                      "per_priority != |e|^alpha + eps", {"got": pp, "want": ref_p})
    res.nontrivial = True
    return res


# ------------------------------------------------------------ histories
class Shadow:
    """Reference: priority per slot, max tracker, sampled indices."""

    def __init__(self, N):
        self.N = N
        self.p = np.zeros(N)
        self.valid = np.zeros(N, dtype=bool)  # written
        self.maxp = 1.0
        self.last = None


def _interval_index(w, x):
    """Index whose cumulative interval (c[i-1], c[i]] contains x (float64)."""
    c = np.cumsum(w)
    for i in range(len(w)):
        lo = c[i - 1] if i else 0.0
        if lo < x <= c[i] and w[i] > 0:
            return i
    return None


def run_hist(case):
    res = Result()
    import rl_blox.blox.replay_buffer as rb

    rng = np.random.default_rng(case["seed"])
    N = case["N"]
    cls = case["cls"]
    sub = cls in ("SubPER", "MultiSubPER")
    multi = cls.startswith("Multi")
    strat = cls in ("PrioritizedReplayBuffer", "MultiPER")
    H = 1
    if sub:
        H = int(rng.integers(1, 3))
        N = max(N, H + 2)
        ok, base = guarded(res, "C08/raises/constructor",
                           rb.SubtrajectoryReplayBufferPER, N, horizon=H)
    elif strat:
        ok, base = guarded(res, "C08/raises/constructor",
                           rb.PrioritizedReplayBuffer, N)
    else:
        ok, base = guarded(res, "C08/raises/constructor", rb.LAP, N)
    if not ok:
        return res
    n_tasks = 2 if multi else 1
    buf = rb.MultiTaskReplayBuffer(base, n_tasks) if multi else base
    sh = [Shadow(N) for _ in range(n_tasks)]
    sel = 0
    last_task = None
    gid = 0
    ep_t = 0
    updated = False
    oracle_after_update = 0

    def sb(t):
        return buf.buffers[t] if multi else buf

    def weights(t):
        b = sb(t)
        L = len(b)
        w = sh[t].p[:L].copy()
        if sub:
            w = w * np.asarray(b.mask_[:L])
        return w

    def compare_state(t, where):
        b = sb(t)
        L = len(b)
        got = np.asarray(b.priority.priority[:L], dtype=float)
        if not np.array_equal(got, sh[t].p[:L]):
            res.violation(
                f"C08/priority_state/{where}",
                f"after {where}: stored priorities {got.tolist()} differ from "
                f"the reference {sh[t].p[:L].tolist()}", {"task": t})
            return False
        mp = float(b.priority.max_priority)
        if L and mp < np.max(got):
            res.violation("C08/max_below_stored", f"after {where}: max_priority "
                          f"{mp} < stored maximum {np.max(got)}")
            return False
        return True

    def add():
        nonlocal gid, ep_t
        gid += 1
        b = sb(sel)
        s = sh[sel]
        if sub:
            ep_t += 1
            end = rng.random() < 0.25
            term = bool(end and rng.random() < 0.7)
            trunc = bool(end and not term)
            idx0 = b.insert_idx
            ok, _ = guarded(res, "C08/raises/add_sample", buf.add_sample,
                            observation=np.array([gid, 0.0]),
                            action=np.array([0.0]), reward=1.0,
                            next_observation=np.array([gid, 1.0]),
                            terminated=term, truncated=trunc)
            if not ok:
                return False
            slots = [idx0] + ([(idx0 + 1) % N] if end else [])
            if end:
                ep_t = 0
        else:
            idx0 = b.insert_idx
            ok, _ = guarded(res, "C08/raises/add_sample", buf.add_sample,
                            observation=np.array([gid, 0.0]), action=0.0,
                            reward=1.0, next_observation=np.array([gid, 1.0]),
                            termination=False)
            if not ok:
                return False
            slots = [idx0]
        for sl in slots:
            s.p[sl] = s.maxp
            s.valid[sl] = True
        # new transition receives the current maximum
        got = np.asarray(b.priority.priority, dtype=float)
        for sl in slots:
            if got[sl] != s.maxp:
                res.violation("C08/new_not_max", f"new transition in slot {sl} got "
                              f"priority {got[sl]}, current maximum is {s.maxp}")
                return False
        res.see("new_gets_max_checks")
        return compare_state(sel, "add")

    def sample(t, us, where):
        """Draw with chosen variates through the public API and compare every
        returned index with the interval oracle."""
        nonlocal last_task, oracle_after_update
        b = sb(t)
        w = weights(t)
        if not w.sum() > 0:
            res.see("nothing_admissible")
            return True
        total = float(np.cumsum(w)[-1])
        g = StubRng(u=list(us))
        if multi:
            g = _Force(g, t)
        bs = len(us)
        if sub:
            ok, batch = guarded(res, "C08/raises/sample_batch", buf.sample_batch,
                                bs, 1, True, g)
        else:
            ok, batch = guarded(res, "C08/raises/sample_batch", buf.sample_batch,
                                bs, g)
        if not ok:
            return False
        isw = None
        if strat:
            batch, isw = batch
        rows = np.asarray(batch.observation).reshape(bs, -1)[:, :2]
        ids = rows[:, 0]
        if multi:
            # how the wrapper draws the task is its own business: identify the
            # task the batch actually came from by its (globally unique) rows
            owner = [tt for tt in range(n_tasks) if len(sb(tt)) and np.any(np.all(
                np.asarray(sb(tt).buffer["observation"][: len(sb(tt))],
                           dtype=np.float32) == rows[0][None], axis=1))]
            if len(owner) == 1 and owner[0] != t:
                t = owner[0]
                b, w = sb(t), weights(t)
                if not w.sum() > 0:
                    res.see("nothing_admissible")
                    return True
                total = float(np.cumsum(w)[-1])
                res.see("multi_task_draws_from_other_task")
        # which slot holds that row (observation rows are unique per slot:
        # [id, 0] for a transition, [id, 1] for a filler row)
        store = np.asarray(b.buffer["observation"][: len(b)], dtype=np.float32)
        idx = []
        for rw in rows:
            pos = np.nonzero(np.all(store == rw[None], axis=1))[0]
            idx.append(int(pos[0]) if len(pos) else -1)
        seg = total / bs
        for k, u in enumerate(us):
            x = (k * seg + seg * u) if strat else u * total
            want = _interval_index(w, x)
            if idx[k] < 0 or idx[k] >= len(b) or w[idx[k]] <= 0:
                res.violation(
                    "C08/invalid_index",
                    f"{where}: variate {u!r} returned a "
                    f"{'masked' if 0 <= idx[k] < len(b) else 'non-stored'} entry "
                    f"(slot {idx[k]}, id {ids[k]})",
                    {"weights": w, "u": u, "batch": bs})
                return False
            if want is not None and idx[k] != want:
                # tolerate a point that float32/float64 rounding puts on the
                # boundary itself
                c = np.cumsum(w)
                near = min(abs(x - c[j]) for j in range(len(c))) <= 4e-16 * total
                if not near:
                    res.violation(
                        "C08/not_proportional",
                        f"{where}: variate {u!r} (x={x!r}) returned slot "
                        f"{idx[k]} but its cumulative interval is slot {want}",
                        {"weights": w})
                    return False
            res.see("interval_oracle_draws")
            if updated:
                oracle_after_update += 1
        sh[t].last = list(idx)
        last_task = t
        if isw is not None:
            isw = np.asarray(isw, dtype=float)
            pr = sh[t].p[np.asarray(idx)]
            beta = sample.beta
            if (not np.all(np.isfinite(isw)) or np.any(isw <= 0) or np.any(isw > 1 + 1e-12)
                    or abs(np.max(isw) - 1.0) > 1e-9):
                res.violation("C08/is_weight_range", f"{where}: importance weights "
                              f"{isw.tolist()} not in (0,1] with maximum 1")
                return False
            order = np.argsort(pr, kind="stable")
            if np.any(np.diff(isw[order]) > 1e-9):
                res.violation("C08/is_weight_monotone", f"{where}: importance "
                              f"weights increase with priority",
                              {"p": pr, "w": isw, "beta": beta})
                return False
            res.see("is_weight_checks")
        return True

    sample.beta = 0.4
    for opi in range(case["n_ops"]):
        r = rng.random()
        have = any(len(sb(t)) for t in range(n_tasks))
        if multi and r < 0.1:
            sel = int(rng.integers(n_tasks))
            buf.select_task(sel)
            continue
        if r < 0.45 or not have:
            if not add():
                return res
            continue
        cands = [t for t in range(n_tasks) if len(sb(t))]
        t = int(rng.choice(cands))
        w = weights(t)
        if r < 0.8:
            if not w.sum() > 0:
                continue
            c = np.cumsum(w)
            tot = c[-1]
            nz = np.nonzero(w)[0]
            if strat:
                # batch 1: one segment covering everything -> target each slot
                for i in nz:
                    lo = c[i - 1] if i else 0.0
                    for x in ((lo + c[i]) / 2, lo + (c[i] - lo) * 1e-9,
                              c[i] - (c[i] - lo) * 1e-9):
                        u = x / tot
                        if 0 < u < 1:
                            if not sample(t, [u], f"op {opi} stratified b=1"):
                                return res
                bs = int(rng.integers(1, 41))
                us = list(rng.uniform(0, 1, bs))
                us[int(rng.integers(bs))] = EDGE_U[int(rng.integers(2))]
                us[-1] = EDGE_U[1] if rng.random() < 0.5 else us[-1]
                sample.beta = float(rng.choice([0.0, 0.4, 1.0, rng.uniform()]))
                if not _sample_beta(sample, buf, t, us, f"op {opi} stratified b={bs}",
                                    res, multi):
                    return res
            else:
                us = []
                for i in nz:
                    lo = c[i - 1] if i else 0.0
                    us += [((lo + c[i]) / 2) / tot, (lo + (c[i] - lo) * 1e-9) / tot,
                           (c[i] - (c[i] - lo) * 1e-9) / tot]
                us = [u for u in us if 0 < u < 1] + EDGE_U
                if not sample(t, us, f"op {opi} forced"):
                    return res
            res.state((cls, N, len(nz), bool(updated)))
        elif r < 0.93:
            # update priorities of the last sampled batch
            if last_task is None or sh[last_task].last is None:
                continue
            t = last_task
            idx = sh[t].last
            kind = rng.integers(4)
            if kind == 0:
                pr = np.full(len(idx), float(rng.choice([1e-6, 1.0, 1e6, 1e-60,
                                                         1e60])))
            else:
                span = float(rng.choice([6, 6, 25]))  # up to 50 orders of magnitude
                pr = 10 ** rng.uniform(-span, span, len(idx)) if kind == 1 else \
                    rng.uniform(0.1, 5.0, len(idx))
            ok, _ = guarded(res, "C08/raises/update_priority",
                            buf.update_priority, pr.copy())
            if not ok:
                return res
            for k, i in enumerate(idx):  # numpy semantics: last write wins
                sh[t].p[i] = pr[k]
            sh[t].maxp = max(sh[t].maxp, float(np.max(pr)))
            updated = True
            res.see("update_sets_exact_checks")
            if not compare_state(t, "update_priority"):
                return res
            if float(sb(t).priority.max_priority) < sh[t].maxp:
                res.violation("C08/max_not_raised", "max_priority below an "
                              "updated priority")
                return res
            sh[t].last = idx
        else:
            # sanitizer-style poisoning: the priority array is allocated with
            # np.empty, so slots beyond the filled region hold unspecified
            # memory; make that memory hostile - correct code never reads it
            for tt in range(n_tasks):
                bb = sb(tt)
                bb.priority.priority[len(bb):] = float(rng.choice([1e12, np.nan]))
                res.see("poisoned_unfilled_slots", int(bb.buffer_size - len(bb)))
            ok, _ = guarded(res, "C08/raises/reset_max_priority",
                            buf.reset_max_priority)
            if not ok:
                return res
            for tt in range(n_tasks):
                L = len(sb(tt))
                if L:
                    sh[tt].maxp = float(np.max(sh[tt].p[:L]))
                    got = float(sb(tt).priority.max_priority)
                    if got != sh[tt].maxp:
                        res.violation("C08/reset_not_true_max", f"after reset "
                                      f"max_priority={got}, true maximum "
                                      f"{sh[tt].maxp}")
                        return res
                    res.see("reset_checks")
    res.nontrivial = oracle_after_update > 0
    return res


def _sample_beta(sample, buf, t, us, where, res, multi):
    """PrioritizedReplayBuffer.sample_batch(batch, rng, beta): route beta."""
    orig = buf.sample_batch
    beta = sample.beta

    def with_beta(bs, g):
        if multi:  # the wrapper takes the generator as keyword next to others
            return orig(bs, rng=g, beta=beta)
        return orig(bs, g, beta)

    buf.sample_batch = with_beta
    try:
        return sample(t, us, where)
    finally:
        del buf.sample_batch


class _Force:
    def __init__(self, inner, t):
        self.inner, self.t = inner, t

    def choice(self, a, size=None, **kw):
        a = np.asarray(a)
        if a.ndim == 0:  # NumPy semantics: choice(n) draws from arange(n)
            a = np.arange(int(a))
        val = self.t if self.t in a.tolist() else a[0]
        return val if size is None else np.full(size, val)

    def __getattr__(self, name):
        return getattr(self.inner, name)


# ------------------------------------------------------------ frequencies
def run_freq(case):
    """Empirical frequencies under a real generator (6 sigma per cell)."""
    res = Result()
    import rl_blox.blox.replay_buffer as rb

    rng = np.random.default_rng(case["seed"])
    N = int(rng.integers(3, 9))
    cls = case["cls"]
    if cls == "SubPER":
        buf = rb.SubtrajectoryReplayBufferPER(N + 3, horizon=1)
    elif cls == "LAP":
        buf = rb.LAP(N)
    else:
        buf = rb.PrioritizedReplayBuffer(N)
    n_add = N + int(rng.integers(0, N))
    for g in range(1, n_add + 1):
        if cls == "SubPER":
            end = g % 3 == 0
            buf.add_sample(observation=np.array([g, 0.0]), action=np.array([0.0]),
                           reward=0.0, next_observation=np.array([g, 1.0]),
                           terminated=end, truncated=False)
        else:
            buf.add_sample(observation=np.array([g, 0.0]), action=0.0, reward=0.0,
                           next_observation=np.array([g, 1.0]), termination=False)
    L = len(buf)
    pr = rng.choice([0.2, 1.0, 3.0, 10.0], size=L)
    buf.priority.priority[:L] = pr  # set the distribution under test directly
    w = pr * (np.asarray(buf.mask_[:L]) if cls == "SubPER" else 1.0)
    if not w.sum() > 0:
        res.see("nothing_admissible")
        return res
    p = w / w.sum()
    g = np.random.default_rng(int(rng.integers(1 << 30)))
    counts = np.zeros(L)
    draws = 0
    bs = 32
    store = np.asarray(buf.buffer["observation"][:L], dtype=np.float32)
    for _ in range(20000 // bs):
        if cls == "SubPER":
            ok, b = guarded(res, "C08/raises/sample_batch", buf.sample_batch,
                            bs, 1, True, g)
        else:
            ok, b = guarded(res, "C08/raises/sample_batch", buf.sample_batch, bs, g)
        if not ok:
            return res
        if cls == "PrioritizedReplayBuffer":
            b = b[0]
        rows = np.asarray(b.observation).reshape(bs, -1)[:, :2]
        for rw in rows:
            i = rw.tolist()
            pos = np.nonzero(np.all(store == rw[None], axis=1))[0]
            if not len(pos) or w[pos[0]] <= 0:
                res.violation("C08/invalid_index", f"real generator drew "
                              f"{'masked' if len(pos) else 'non-stored'} id {i}",
                              {"weights": w})
                return res
            counts[pos[0]] += 1
        draws += bs
    sd = np.sqrt(draws * p * (1 - p))
    dev = np.abs(counts - draws * p)
    # stratified sampling has smaller variance than multinomial: same bound holds
    bad = np.nonzero(dev > 6 * sd + 1)[0]
    if len(bad):
        res.violation("C08/frequency", f"empirical frequency of slot(s) "
                      f"{bad.tolist()} deviates > 6 sigma from p_i/sum(p)",
                      {"counts": counts, "expected": draws * p, "weights": w})
    res.see("frequency_cells", L)
    res.see("frequency_draws", draws)
    res.nontrivial = True
    return res
