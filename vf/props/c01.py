"""C01 - stored experience equals what the environment actually produced.

Offline checker over the recorded trace of a real training run on a scripted,
recording environment: every transition handed over for learning is compared
with the environment log entry of the same step; the observation the acting
policy is conditioned on must be the observation the environment last returned.
"""

import inspect

import numpy as np

from vf.core import Result, guarded
from vf.loop import acting_obs_patches, rebound

ID = "C01"
RULE = (
    "every training routine (DQN, Nature-DQN, DDQN, PER, DDPG, TD3, TD3+LAP, SAC, "
    "TD7, MR.Q, PETS, REINFORCE, actor-critic, A2C (both autoreset modes), PPO, "
    "Q-learning, SARSA, double Q-learning, Monte-Carlo, Dyna-Q) x scripts mixing "
    "episode lengths {1,2,3,5,8,13} with terminated and truncated ends, warm-up "
    "before / at / after the first episode end, buffer capacity below the step "
    "count; 40-120 steps. Non-trivial = run with >=2 episode boundaries of "
    "which >=1 truncated and >=1 terminated, and >=20 stored transitions "
    "checked; distinct = distinct (routine, script, warm-up, capacity, seed)"
)
REQUIRED = {
    "stored_transitions_checked": 500, "episode_boundaries_crossed": 50,
    "acting_observations_checked": 200, "final_buffer_checks": 5,
    "routines_run": 19,
}
TIMEOUT = {"quick": 1500, "thorough": 7000}
ASSUMPTIONS = [
    "vector environments: the reference is what the vector API returned",
    "MR.Q's buffer-internal filler rows are not add_sample calls (see C04)",
]

ROUTINES = ["dqn", "nature_dqn", "ddqn", "per", "ddpg", "td3", "td3_lap", "sac",
            "td7", "mrq", "pets", "reinforce", "actor_critic", "a2c", "a2c_same",
            "a2c_inplace", "mrq_own", "td3_lap_own", "ppo", "q_learning", "sarsa", "double_q_learning", "monte_carlo",
            "dynaq", "rollout_helper"]
COST = {"mrq": 14, "mrq_own": 14, "pets": 10, "td7": 8, "dqn": 7, "ppo": 7, "dynaq": 5, "sac": 4,
        "ddpg": 3, "td3": 3, "td3_lap": 3}


def make_script(rng, n=6):
    lens = [int(x) for x in rng.choice([1, 2, 3, 5, 8, 13], size=n)]
    kinds = [str(k) for k in rng.choice(["T", "U"], size=n)]
    kinds[0], kinds[1] = "T", "U"
    return [list(p) for p in zip(lens, kinds)]


def gen_cases(tier, seed):
    from vf.algos import random_options

    rng = np.random.default_rng(seed + 101)
    reps = 2 if tier == "quick" else 30
    cases = []
    for r in range(reps):
        for algo in ROUTINES:
            script = make_script(rng)
            first = script[0][0]
            ls = int(rng.choice([max(first - 1, 1), first, first + 2, 6, 11]))
            total = int(rng.integers(40, 70 if tier == "quick" else 120))
            cases.append(dict(
                algo=algo, script=script,
                scripts=[make_script(rng, 4), make_script(rng, 4),
                         make_script(rng, 4)],
                learning_starts=ls, total_timesteps=total,
                buffer_size=int(rng.choice([7, 16, 1000])),
                seed=int(rng.integers(1 << 20)), n_envs=int(rng.integers(2, 4)),
                cost=COST.get(algo, 2),
                # first repetition: defaults; later ones: documented options
                options=random_options(algo, rng) if r else {},
                # whole-number first observation / reward handed out as integers
                int_first=bool(r % 2),
            ))
    return cases


def _eq(a, b):
    a, b = np.asarray(a, dtype=np.float64).ravel(), np.asarray(b, dtype=np.float64).ravel()
    return a.shape == b.shape and np.array_equal(a, b)


def check_add_trace(res, events, algo, acting_kind):
    """Walk the totally ordered trace of a single-environment routine."""
    cur = None            # observation the environment last returned
    last_step = None
    prev_obs = None
    pending_add = False
    boundaries = {"T": 0, "U": 0}
    fresh_episode = False
    logged = {}  # observation before the action -> (action, reward, next obs, term)
    for e in events:
        k = e["k"]
        if k == "sample":
            # every transition drawn for learning is one the environment produced
            if e.get("admissible") is False:
                res.see("samples_without_admissible_start")
                continue
            b = e["batch"]
            obs = np.asarray(b["observation"], np.float64)
            act = np.asarray(b["action"], np.float64)
            rew = np.asarray(b["reward"], np.float64)
            if obs.ndim == 3:      # subtrajectory view: first step of each window
                obs, act = obs[:, 0], act[:, 0]
            if rew.ndim == 2:
                rew = rew[:, 0]
            for i in range(obs.shape[0]):
                hit = logged.get(tuple(obs[i].tolist()))
                if hit is None or not (_eq(act[i], hit[0])
                                       and abs(float(rew[i]) - hit[1]) < 1e-6):
                    res.violation(
                        f"C01/sampled_not_from_environment/{algo}",
                        f"a transition sampled for learning starts at "
                        f"{obs[i].tolist()} with action {act[i].tolist()} and "
                        f"reward {float(rew[i])}: the environment "
                        f"{'never acted from that observation' if hit is None else 'produced ' + str((np.asarray(hit[0]).tolist(), hit[1]))}")
                    return
            res.see("sampled_transitions_checked", int(obs.shape[0]))
            # multi-step windows: every later step, up to and including the
            # first terminated one, continues the same episode of the
            # environment log (rewards / actions / successor observations)
            R = np.asarray(b["reward"], np.float64)
            if R.ndim == 2 and R.shape[1] > 1 and "terminated" in b:
                T = np.asarray(b["terminated"]).reshape(R.shape)
                O = np.asarray(b["observation"], np.float64)
                NO = np.asarray(b["next_observation"], np.float64)
                for i in range(R.shape[0]):
                    cur_key = tuple(obs[i].tolist())
                    for t in range(R.shape[1]):
                        hit = logged.get(cur_key)
                        bad = hit is None or abs(float(R[i, t]) - hit[1]) > 1e-6
                        if not bad and O.ndim == 3:
                            bad = tuple(O[i, t].tolist()) != cur_key or not _eq(
                                NO[i, t], hit[2])
                        if bad:
                            res.violation(
                                f"C01/sampled_window_leaves_episode/{algo}",
                                f"step {t} of a sampled {R.shape[1]}-step window "
                                f"starting at {obs[i].tolist()} (reward "
                                f"{float(R[i, t])}) is not the environment's next "
                                f"transition of that episode"
                                + ("" if hit is None else
                                   f" (the environment returned reward {hit[1]})"))
                            return
                        if bool(T[i, t]) != bool(hit[3]):
                            res.violation(
                                f"C01/sampled_window_leaves_episode/{algo}",
                                f"step {t} of a sampled window: terminated flag "
                                f"{bool(T[i, t])}, environment {bool(hit[3])}")
                            return
                        if hit[3]:
                            break
                        cur_key = tuple(np.asarray(hit[2], np.float64).tolist())
                    if O.ndim != 3 and not bool(np.any(T[i])):
                        # reduced view: successor observation of the last step
                        pass
                res.see("sampled_windows_checked", int(R.shape[0]))
            continue
        if k == "reset":
            cur = e["obs"]
            fresh_episode = True
        elif k == "step":
            if pending_add:
                res.violation(f"C01/step_not_stored/{algo}",
                              "an environment step was not stored before the next")
                return
            prev_obs = cur
            if cur is not None:
                logged[tuple(np.asarray(cur, np.float64).tolist())] = (
                    e["action"], float(e["reward"]), e["obs"], e["terminated"])
            cur = e["obs"]
            last_step = e
            pending_add = True
            if e["terminated"]:
                boundaries["T"] += 1
            if e["truncated"]:
                boundaries["U"] += 1
        elif k == "act_obs" or (k == "call" and e.get("name") == acting_kind
                                and e["phase"] == "enter"):
            obs = e["obs"]
            if cur is None or not _eq(obs, cur):
                res.violation(
                    f"C01/acting_on_stale_observation/{algo}",
                    f"policy/planner conditioned on {np.asarray(obs).tolist()} "
                    f"while the environment last returned "
                    f"{None if cur is None else np.asarray(cur).tolist()}")
                return
            res.see("acting_observations_checked")
        elif k == "add":
            s = e["sample"]
            if last_step is None or not pending_add:
                res.violation(f"C01/add_without_step/{algo}",
                              "add_sample without a preceding environment step")
                return
            pending_add = False
            term_key = "termination" if "termination" in s else "terminated"
            want = dict(observation=prev_obs, action=last_step["action"],
                        reward=last_step["reward"],
                        next_observation=last_step["obs"])
            want[term_key] = last_step["terminated"]
            if "truncated" in s:
                want["truncated"] = last_step["truncated"]
            for key, w in want.items():
                if key not in s or not _eq(s[key], w):
                    where = ("first transition of a new episode"
                             if fresh_episode and key == "observation" else "transition")
                    mech = ("stale_observation_after_reset"
                            if fresh_episode and key == "observation"
                            else f"field_{key}")
                    res.violation(
                        f"C01/{mech}/{algo}",
                        f"{where}: stored {key}="
                        f"{np.asarray(s.get(key)).tolist()} but the environment "
                        f"produced {np.asarray(w).tolist()} (step #{e['n']})",
                        {"stored": {kk: np.asarray(v).tolist() for kk, v in s.items()},
                         "env_step": {kk: last_step[kk] for kk in
                                      ("action", "obs", "reward", "terminated",
                                       "truncated")}})
                    return
            res.see("stored_transitions_checked")
            if fresh_episode:
                res.see("episode_boundaries_crossed")
                fresh_episode = False
    return boundaries


def check_final_buffer(res, run, events, algo):
    buf = run.buffer
    if buf is None or not hasattr(buf, "buffer") or "termination" not in buf.buffer:
        return
    steps = []
    cur = None
    for e in events:
        if e["k"] == "reset":
            cur = e["obs"]
        elif e["k"] == "step":
            steps.append((cur, e))
            cur = e["obs"]
    n = len(buf)
    want = steps[-n:] if n else []
    got = []
    for i in range(n):
        got.append(tuple(np.asarray(buf.buffer[k][i], dtype=float).ravel().tolist()
                         for k in ("observation", "action", "reward",
                                   "next_observation", "termination")))
    exp = []
    for prev, e in want:
        exp.append((np.asarray(prev, float).ravel().tolist(),
                    np.asarray(e["action"], float).ravel().tolist(),
                    [float(e["reward"])], np.asarray(e["obs"], float).ravel().tolist(),
                    [float(e["terminated"])]))
    exp = [tuple(tuple(x) for x in row) for row in exp]
    got = [tuple(tuple(x) for x in row) for row in got]
    if sorted(got) != sorted(exp) or n != min(len(steps), buf.buffer_size):
        res.violation(f"C01/final_buffer/{algo}",
                      f"returned buffer (len {n}) does not hold the last "
                      f"min(n,N) environment transitions",
                      {"n_steps": len(steps), "capacity": buf.buffer_size})
    res.see("final_buffer_checks")


def _obs_recorder(trace, name, fn, obs_arg):
    sig = None
    try:
        sig = inspect.signature(getattr(fn, "__wrapped__", fn))
    except (TypeError, ValueError):
        pass

    def wrapper(*a, **kw):
        obs = None
        if sig is not None:
            try:
                ba = sig.bind(*a, **kw)
                for cand in obs_arg:
                    if cand in ba.arguments:
                        obs = ba.arguments[cand]
                        break
            except TypeError:
                pass
        trace.ev("call", name=name, phase="enter", obs=np.array(obs, copy=True))
        return fn(*a, **kw)

    return wrapper


def run_rollout_helper(case):
    """generate_rollout returns the episode record (obs, actions, rewards)."""
    res = Result()
    import jax.numpy as jnp

    from rl_blox.util.experiment_helper import generate_rollout
    from vf.loop import ScriptEnv, Trace

    tr = Trace()
    tr.snap_enabled = False
    L, kind = case["script"][0]
    env = ScriptEnv(tr, [(L, kind)], n_actions=3)
    seen = []

    def policy(observation, key):
        seen.append(np.array(observation, copy=True))
        return jnp.asarray((len(seen) * 2) % 3)

    ok, out = guarded(res, "C01/raises/rollout_helper", generate_rollout, env,
                      policy, case["seed"])
    if not ok:
        return res
    res.see("routines_run")
    res.see("run_rollout_helper")
    obs, acts, rews = [np.asarray(x) for x in out]
    steps = [e for e in tr.events if e["k"] == "step"]
    resets = [e for e in tr.events if e["k"] == "reset"]
    want_obs = [resets[0]["obs"]] + [e["obs"] for e in steps]
    if not (_eq(obs, np.asarray(want_obs)) and
            _eq(acts, [int(e["action"]) for e in steps]) and
            np.allclose(rews, [e["reward"] for e in steps], rtol=1e-6)):
        res.violation("C01/episode_records/rollout_helper", "generate_rollout's "
                      "returned arrays differ from the environment episode")
    cur = resets[0]["obs"]
    for o, e in zip(seen, steps):
        if not _eq(o, cur):
            res.violation("C01/acting_on_stale_observation/rollout_helper",
                          "policy conditioned on an observation other than the "
                          "current one")
            break
        cur = e["obs"]
        res.see("acting_observations_checked")
    res.see("stored_transitions_checked", len(steps))
    res.see("episode_boundaries_crossed")
    res.nontrivial = len(steps) >= 2
    res.state(("rollout_helper", kind))
    return res


def run_case(case):
    res = Result()
    from vf.algos import make_run

    algo = case["algo"]
    if algo == "rollout_helper":
        return run_rollout_helper(case)
    cfg = dict(case)
    cfg.update(batch_size=4, update_frequency=2, target_update_frequency=5,
               low=[-1.0, 0.5], high=[2.0, 3.0], snapshots=False,
               steps_per_update=int(7 + case["seed"] % 5), rollout=4,
               iterations=max(2, case["total_timesteps"] // 12))
    name = algo
    if algo == "a2c_same":
        name = "a2c"
        cfg["same_step"] = True
    if algo.endswith("_own"):
        # the routine builds its own replay buffer; MR.Q with a Q horizon well
        # above the encoder horizon (valid, non-default)
        name = algo[:-4]
        cfg["own_buffer"] = True
        if name == "mrq":
            cfg["encoder_horizon"], cfg["q_horizon"] = 1, 4
    if algo == "a2c_inplace":
        # vector environment that reuses one observation buffer
        # (SyncVectorEnv(copy=False)); with one step per update every row is
        # stored before the buffer is overwritten again
        name = "a2c"
        cfg["inplace_obs"] = True
        cfg["steps_per_update"] = 1
    if algo in ("reinforce", "actor_critic", "a2c", "a2c_same", "a2c_inplace"):
        cfg["discrete"] = bool(case["seed"] % 2)
    run = make_run(name, cfg)
    tr = run.trace
    patches = acting_obs_patches(tr)
    import importlib
    mod = importlib.import_module(run.patch_modules[0])
    if cfg.get("own_buffer"):
        from vf.loop import rec_buffer_class
        for bname, obj in list(vars(mod).items()):
            if isinstance(obj, type) and obj.__module__.endswith("replay_buffer") \
                    and hasattr(obj, "add_sample"):
                patches.append((mod, bname, rec_buffer_class(obj, tr)))
    captured = {}
    acting_kind = None
    if name in ("dqn", "nature_dqn", "ddqn", "per"):
        acting_kind = "greedy_policy"
        patches.append((mod, "greedy_policy", _obs_recorder(
            tr, "greedy_policy", mod.greedy_policy, ["obs", "observation"])))
    elif name == "pets":
        acting_kind = "mpc_action"
        patches.append((mod, "mpc_action", _obs_recorder(
            tr, "mpc_action", mod.mpc_action, ["obs", "observation"])))
    elif name in ("q_learning", "sarsa", "double_q_learning", "monte_carlo", "dynaq"):
        return run_tabular(res, run, mod, case)
    elif name in ("reinforce", "actor_critic"):
        orig = mod.sample_trajectories

        def sample_trajectories(*a, **kw):
            i0 = len(tr.events)
            ds = orig(*a, **kw)
            captured.setdefault("datasets", []).append((i0, len(tr.events), ds))
            return ds

        patches.append((mod, "sample_trajectories", sample_trajectories))
    elif name == "a2c":
        from vf.loop import rec_buffer_class
        patches.append((mod, "ReplayBuffer", rec_buffer_class(mod.ReplayBuffer, tr,
                                                              "rollout")))
    elif name == "ppo":
        orig = mod.collect_trajectories

        def collect_trajectories(*a, **kw):
            i0 = len(tr.events)
            out = orig(*a, **kw)
            captured.setdefault("rollouts", []).append((i0, len(tr.events), out))
            return out

        patches.append((mod, "collect_trajectories", collect_trajectories))
    with rebound(patches):
        ok, _ = guarded(res, f"C01/raises/{algo}", run.call)
    if not ok:
        return res
    res.see("routines_run")
    res.see(f"run_{algo}")
    ev = tr.events
    if name in ("reinforce", "actor_critic"):
        b = check_datasets(res, ev, captured.get("datasets", []), algo)
    elif name == "a2c":
        b = check_a2c(res, ev, algo)
    elif name == "ppo":
        b = check_ppo(res, ev, captured.get("rollouts", []), algo)
    else:
        b = check_add_trace(res, ev, algo, acting_kind)
        if not res.viol:
            check_final_buffer(res, run, ev, algo)
    checked = res.obs.get("stored_transitions_checked", 0)
    res.nontrivial = bool(b and b.get("T", 0) >= 1 and b.get("U", 0) >= 1
                          and checked >= 20)
    res.state((algo, case["learning_starts"] <= case["script"][0][0],
               case["buffer_size"] < case["total_timesteps"]))
    return res


# ---------------------------------------------------------------- REINFORCE
def check_datasets(res, ev, datasets, algo):
    boundaries = {"T": 0, "U": 0}
    for i0, i1, ds in datasets:
        seg = ev[i0:i1]
        # environment episodes inside this collection call
        episodes = []
        cur = None
        for e in seg:
            if e["k"] == "reset":
                cur = e["obs"]
                episodes.append([])
            elif e["k"] == "step":
                if not episodes:
                    res.violation(f"C01/collect_without_reset/{algo}",
                                  "collection stepped before resetting")
                    return boundaries
                episodes[-1].append((cur, e))
                cur = e["obs"]
                if e["terminated"]:
                    boundaries["T"] += 1
                if e["truncated"]:
                    boundaries["U"] += 1
            elif e["k"] == "act_obs":
                if cur is None or not _eq(e["obs"], cur):
                    res.violation(f"C01/acting_on_stale_observation/{algo}",
                                  f"policy conditioned on "
                                  f"{np.asarray(e['obs']).tolist()} while the "
                                  f"environment last returned "
                                  f"{None if cur is None else np.asarray(cur).tolist()}")
                    return boundaries
                res.see("acting_observations_checked")
        episodes = [ep for ep in episodes if ep]
        if len(ds.episodes) != len(episodes):
            res.violation(f"C01/episode_records/{algo}",
                          f"dataset has {len(ds.episodes)} episode records, the "
                          f"environment ran {len(episodes)} episodes")
            return boundaries
        for rec, env_ep in zip(ds.episodes, episodes):
            if len(rec) != len(env_ep):
                res.violation(f"C01/episode_records/{algo}",
                              f"episode record of length {len(rec)}, environment "
                              f"episode of length {len(env_ep)}")
                return boundaries
            for t, ((o, a, no, r), (prev, e)) in enumerate(zip(rec, env_ep)):
                if not (_eq(o, prev) and _eq(a, e["action"]) and _eq(no, e["obs"])
                        and float(r) == float(e["reward"])):
                    mech = ("stale_observation_after_reset" if t == 0
                            and not _eq(o, prev) else "field_mismatch")
                    res.violation(f"C01/{mech}/{algo}",
                                  f"episode record step {t}: stored "
                                  f"({np.asarray(o).tolist()}, "
                                  f"{np.asarray(a).tolist()}, "
                                  f"{np.asarray(no).tolist()}, {r}) vs environment "
                                  f"({np.asarray(prev).tolist()}, "
                                  f"{np.asarray(e['action']).tolist()}, "
                                  f"{np.asarray(e['obs']).tolist()}, {e['reward']})")
                    return boundaries
                res.see("stored_transitions_checked")
            res.see("episode_boundaries_crossed")
    return boundaries


# ---------------------------------------------------------------- A2C / PPO
def check_a2c(res, ev, algo):
    boundaries = {"T": 0, "U": 0}
    cur = None
    last = None
    pending = False
    for e in ev:
        if e["k"] == "vreset":
            cur = e["obs"]
        elif e["k"] == "vstep":
            prev, cur, last, pending = cur, e["obs"], e, True
            boundaries["T"] += int(np.sum(e["terminated"]))
            boundaries["U"] += int(np.sum(e["truncated"]))
            prev_for_add = prev
        elif e["k"] == "act_obs":
            if cur is None or not _eq(e["obs"], cur):
                res.violation(f"C01/acting_on_stale_observation/{algo}",
                              "policy conditioned on an observation batch other "
                              "than the one the vector environment last returned")
                return boundaries
            res.see("acting_observations_checked")
        elif e["k"] == "add" and "obs" in e["sample"]:
            if not pending:
                res.violation(f"C01/add_without_step/{algo}", "rollout row without "
                              "an environment step")
                return boundaries
            pending = False
            s = e["sample"]
            want = dict(obs=prev_for_add, actions=last["action"],
                        rewards=last["reward"], terminations=last["terminated"],
                        truncations=last["truncated"])
            for key, w in want.items():
                if key not in s or not _eq(s[key], w):
                    res.violation(f"C01/field_{key}/{algo}",
                                  f"rollout row: stored {key}="
                                  f"{np.asarray(s.get(key)).tolist()} but the "
                                  f"vector environment produced "
                                  f"{np.asarray(w).tolist()}")
                    return boundaries
            res.see("stored_transitions_checked", int(np.asarray(s["rewards"]).size))
            if np.any(last["terminated"]) or np.any(last["truncated"]):
                res.see("episode_boundaries_crossed")
    return boundaries


def check_ppo(res, ev, rollouts, algo):
    boundaries = {"T": 0, "U": 0}
    for i0, i1, traj in rollouts:
        seg = ev[i0:i1]
        cur = None
        # the observation before the first step of this rollout
        for e in reversed(ev[:i0]):
            if e["k"] in ("vstep", "vreset"):
                cur = e["obs"]
                break
        rows = []
        for e in seg:
            if e["k"] == "vreset":
                cur = e["obs"]
            elif e["k"] == "vstep":
                rows.append((cur, e))
                cur = e["obs"]
                boundaries["T"] += int(np.sum(e["terminated"]))
                boundaries["U"] += int(np.sum(e["truncated"]))
            elif e["k"] == "act_obs":
                if cur is None or not _eq(e["obs"], cur):
                    res.violation(f"C01/acting_on_stale_observation/{algo}",
                                  "actor conditioned on an observation batch "
                                  "other than the one last returned")
                    return boundaries
                res.see("acting_observations_checked")
        T = len(rows)
        if T == 0:
            continue
        N = np.asarray(rows[0][1]["reward"]).shape[0]
        obs = np.asarray(traj.observation)
        act = np.asarray(traj.action)
        rew = np.asarray(traj.reward)
        ter = np.asarray(traj.terminated)
        if obs.shape[0] != T * N:
            res.violation(f"C01/rollout_rows/{algo}", f"trajectory has "
                          f"{obs.shape[0]} rows for {T} steps of {N} environments")
            return boundaries
        for n in range(N):
            for t in range(T):
                prev, e = rows[t]
                i = n * T + t
                if not (_eq(obs[i], prev[n]) and _eq(act[i], e["action"][n])
                        and float(rew[i]) == float(np.float32(e["reward"][n]))
                        and bool(ter[i]) == bool(e["terminated"][n])):
                    res.violation(
                        f"C01/field_mismatch/{algo}",
                        f"trajectory row (env {n}, step {t}): stored "
                        f"({obs[i].tolist()}, {act[i].tolist()}, {rew[i]}, "
                        f"{ter[i]}) vs environment ({prev[n].tolist()}, "
                        f"{e['action'][n].tolist()}, {e['reward'][n]}, "
                        f"{e['terminated'][n]})")
                    return boundaries
                res.see("stored_transitions_checked")
        res.see("episode_boundaries_crossed",
                int(sum(np.sum(e["terminated"]) + np.sum(e["truncated"])
                        for _, e in rows)))
    return boundaries


# ---------------------------------------------------------------- tabular
UPDATE_FNS = {
    "q_learning": ["_update_policy"], "sarsa": ["_update_policy"],
    "double_q_learning": ["_dql_update"], "dynaq": ["q_learning_update"],
    "monte_carlo": ["update"],
}


def run_tabular(res, run, mod, case):
    algo = case["algo"]
    tr = run.trace
    in_planning = [0]
    store = [None]
    patches = []

    def rec_update(name, fn):
        sig = inspect.signature(getattr(fn, "__wrapped__", fn))

        def wrapper(*a, **kw):
            ba = sig.bind(*a, **kw)
            args = {k: (np.array(v, copy=True) if k not in ("key",) else None)
                    for k, v in ba.arguments.items()
                    if k not in ("q_table", "q_table1", "q_table2", "n_visits")}
            tr.ev("update", name=name, args=args, planning=bool(in_planning[0]))
            return fn(*a, **kw)

        return wrapper

    for fname in UPDATE_FNS[algo]:
        patches.append((mod, fname, rec_update(fname, getattr(mod, fname))))
    if algo == "dynaq":
        orig_plan = mod.planning

        def planning(*a, **kw):
            in_planning[0] += 1
            try:
                return orig_plan(*a, **kw)
            finally:
                in_planning[0] -= 1

        patches.append((mod, "planning", planning))
        orig_cu = mod.counter_update

        def counter_update(counter, obs, act, reward, next_obs):
            tr.ev("update", name="counter_update", planning=False,
                  args=dict(obs=obs, act=act, reward=reward, next_obs=next_obs))
            out = orig_cu(counter, obs, act, reward, next_obs)
            store[0] = out
            return out

        patches.append((mod, "counter_update", counter_update))
    eg = mod.epsilon_greedy_policy
    patches.append((mod, "epsilon_greedy_policy", _obs_recorder(
        tr, "epsilon_greedy_policy", eg, ["observation", "obs"])))
    with rebound(patches):
        ok, _ = guarded(res, f"C01/raises/{algo}", run.call)
    if not ok:
        return res
    res.see("routines_run")
    res.see(f"run_{algo}")
    if algo == "dynaq" and store[0] is not None:
        # Dyna-Q's experience store ("maps o,a,o' to list of rewards"): per
        # transition exactly the rewards the environment returned for it
        want = {}
        for e in tr.events:
            if e["k"] == "step":
                want.setdefault((int(e["prev"]), int(e["action"]), int(e["obs"])),
                                []).append(float(e["reward"]))
        hist, cnt = store[0].reward_history, store[0].transition_counter
        for o in range(len(hist)):
            for a_ in range(len(hist[o])):
                for o2 in range(len(hist[o][a_])):
                    got = [float(x) for x in hist[o][a_][o2]]
                    exp = want.get((o, a_, o2), [])
                    if not np.allclose(got, exp, atol=1e-6) if len(got) == len(exp) \
                            else True:
                        res.violation(
                            "C01/experience_store/dynaq",
                            f"rewards kept for transition ({o},{a_},{o2}): {got}, "
                            f"the environment returned {exp}")
                        return res
                    if int(cnt[o][a_][o2]) != len(exp):
                        res.violation(
                            "C01/experience_store/dynaq",
                            f"count kept for transition ({o},{a_},{o2}): "
                            f"{int(cnt[o][a_][o2])}, observed {len(exp)} times")
                        return res
                    res.see("experience_store_entries_checked")
    cur = None
    last = None
    boundaries = {"T": 0, "U": 0}
    episode = []
    fresh = False
    last_call = None
    for e in tr.events:
        k = e["k"]
        if k == "reset":
            cur = e["obs"]
            fresh = True
        elif k == "step":
            # the latest policy evaluation before a step is the one the action
            # comes from (SARSA may carry the action evaluated for the
            # successor); it must be conditioned on the current observation
            if last_call is None or int(last_call["obs"]) != int(e["prev"]):
                res.violation(
                    f"C01/acting_on_stale_observation/{algo}",
                    f"step in state {e['prev']}: the latest policy evaluation was "
                    f"conditioned on state "
                    f"{None if last_call is None else int(last_call['obs'])}")
                return res
            res.see("acting_observations_checked")
            last = e
            cur = e["obs"]
            episode.append(e)
            boundaries["T"] += e["terminated"]
            boundaries["U"] += e["truncated"]
        elif k == "call" and e["name"] == "epsilon_greedy_policy":
            last_call = e
        elif k == "update" and not e["planning"]:
            a = e["args"]
            if algo == "monte_carlo":
                want_o = [s["prev"] for s in episode]
                want_a = [s["action"] for s in episode]
                want_r = [s["reward"] for s in episode]
                if not (list(map(int, a["observations"])) == want_o
                        and list(map(int, a["actions"])) == want_a
                        and np.allclose(np.asarray(a["rewards"], float), want_r,
                                        rtol=1e-6)):
                    res.violation(f"C01/episode_records/{algo}",
                                  "episode arrays handed to the Monte-Carlo "
                                  "update differ from the environment episode",
                                  {"obs": a["observations"], "want": want_o})
                    return res
                res.see("stored_transitions_checked", len(episode))
                res.see("episode_boundaries_crossed")
                episode = []
                continue
            o = a.get("observation", a.get("obs"))
            ac = a.get("action", a.get("act"))
            no = a.get("next_observation", a.get("next_obs"))
            ok_fields = (int(o) == last["prev"] and int(ac) == last["action"]
                         and abs(float(a["reward"]) - last["reward"]) < 1e-6
                         and int(no) == last["obs"])
            if "terminated" in a:
                ok_fields = ok_fields and bool(a["terminated"]) == last["terminated"]
            if not ok_fields:
                mech = ("stale_observation_after_reset"
                        if fresh and int(o) != last["prev"] else "field_mismatch")
                res.violation(
                    f"C01/{mech}/{algo}",
                    f"{e['name']} got (s={int(o)}, a={int(ac)}, r={float(a['reward'])}"
                    f", s'={int(no)}, term={a.get('terminated')}), environment "
                    f"produced (s={last['prev']}, a={last['action']}, "
                    f"r={last['reward']}, s'={last['obs']}, "
                    f"term={last['terminated']})")
                return res
            res.see("stored_transitions_checked")
            if fresh:
                res.see("episode_boundaries_crossed")
                fresh = False
    res.nontrivial = bool(boundaries["T"] and boundaries["U"]
                          and res.obs.get("stored_transitions_checked", 0) >= 20)
    res.state((algo, "tab"))
    return res
