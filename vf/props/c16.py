"""C16 - black-box optimisers keep their distribution and bookkeeping invariants."""

import numpy as np

from vf.core import Result, guarded

ID = "C16"
RULE = (
    "CMA-ES ask/tell loops through the real functions for dimension 1..8, "
    "population 2..20, default and active covariance update, fitness sequences "
    "with ties, 1e6 scale, +-inf and NaN, with a ledger of every evaluated "
    "candidate; flat_params/set_params round trips on MLP, Gaussian MLP, "
    "LayerNorm MLP, tanh policies, SALE actor, encoder policy; CEM sample/update "
    "with means anywhere in (and on the boundary of) the box, variances 1e-6.."
    "1e6, population 2..50, elites 1..n, ties; train_cmaes on a scripted "
    "environment (best fitness vs the maximum episode return in the log). "
    "Non-trivial = run with >=2 distribution updates (CMA-ES) / mean on the "
    "boundary or tie among the elites (CEM); distinct by (kind, parameters, seed)"
)
REQUIRED = {
    "cmaes_tells": 300, "cmaes_updates": 30, "best_ledger_checks": 300,
    "mean_recombination_checks": 20, "cmaes_bounded_runs": 3, "round_trips": 8, "cem_samples_checked": 500,
    "cem_updates_checked": 20, "train_cmaes_runs": 1,
}
TIMEOUT = {"quick": 1200, "thorough": 7000}
ASSUMPTIONS = ["population >= 2 (population 1 is rejected loudly)",
               "ties in fitness: any valid elite / mu set accepted",
               "symmetry within 1e-5 * max|C|"]


def gen_cases(tier, seed):
    rng = np.random.default_rng(seed + 1616)
    k = 1 if tier == "quick" else 40
    cases = []
    for i in range(20 * k):
        cases.append(dict(kind="cmaes", dim=int(rng.integers(1, 9)),
                          pop=int(rng.integers(2, 21)), active=bool(i % 2),
                          fit=str(rng.choice(["sphere", "ties", "big", "noise",
                                              "inf", "nan", "const"])),
                          maximize=bool(rng.integers(2)),
                          seed=int(rng.integers(1 << 30)), cost=4))
    for i in range(8 * k):
        cases.append(dict(kind="roundtrip", arch=i % 8,
                          seed=int(rng.integers(1 << 30)), cost=2))
    for i in range(30 * k):
        cases.append(dict(kind="cem", seed=int(rng.integers(1 << 30)), cost=1))
    for i in range(2 * k):
        cases.append(dict(kind="train", seed=int(rng.integers(1 << 20)),
                          active=bool(i % 2), cost=8))
    return cases


def run_case(case):
    return globals()["run_" + case["kind"]](case)


def run_cmaes(case):
    res = Result()
    import jax
    import jax.numpy as jnp

    from rl_blox.algorithm import cmaes as cm

    rng = np.random.default_rng(case["seed"])
    dim, pop = case["dim"], case["pop"]
    init = rng.normal(size=dim)
    bounds = None
    if rng.random() < 0.5:
        # box constraints tight enough that sampled candidates get clipped
        half = rng.uniform(0.3, 2.0, size=dim)
        bounds = np.stack([init - half * rng.uniform(0.2, 1.0, size=dim),
                           init + half * rng.uniform(0.2, 1.0, size=dim)], axis=1)
        res.see("cmaes_bounded_runs")
    ok, config = guarded(res, "C16/raises/CMAESConfig.create", cm.CMAESConfig.create,
                         active=case["active"], bounds=bounds,
                         maximize=case["maximize"], min_variance=1e-14,
                         min_fitness_dist=1e-12, max_condition=1e7, n_params=dim,
                         n_samples_per_update=pop)
    if not ok:
        return res
    w = np.asarray(config.weights, np.float64)
    if not (np.all(w > 0) and np.all(np.diff(w) <= 1e-9)
            and abs(w.sum() - 1.0) < 1e-5 and len(w) == config.mu):
        res.violation("C16/cmaes/weights", f"recombination weights {w.tolist()} not "
                      f"positive / non-increasing / summing to one")
        return res
    cov = None if rng.random() < 0.5 else np.abs(rng.normal(size=dim)) + 0.1
    ok, state = guarded(res, "C16/raises/CMAESState.create", cm.CMAESState.create,
                        jax.random.key(case["seed"] % 99991), jnp.asarray(init),
                        float(rng.choice([0.1, 1.0, 4.0])), cov)
    if not ok:
        return res
    ok, samples = guarded(res, "C16/raises/sample_population", cm.sample_population,
                          config, state)
    if not ok:
        return res
    population = cm.Population.create(samples=samples)
    ledger = []  # (internal fitness, params)
    generation = []  # candidates evaluated since the last distribution update
    n_updates = 0
    target = rng.normal(size=dim)

    def fitness(x, it):
        kind = case["fit"]
        f = float(np.sum((x - target) ** 2))
        if kind == "ties":
            f = float(np.round(f))
        elif kind == "big":
            f *= 1e6
        elif kind == "noise":
            f += float(rng.normal())
        elif kind == "const":
            f = 1.0
        elif kind == "inf" and it % 7 == 3:
            f = float(rng.choice([np.inf, -np.inf]))
        elif kind == "nan" and it % 9 == 4:
            f = float("nan")
        return -f if case["maximize"] else f

    for it in range(pop * int(rng.integers(2, 6))):
        ok, params = guarded(res, "C16/raises/get_next_parameters",
                             cm.get_next_parameters, config, state, population)
        if not ok:
            return res
        x = np.asarray(params, np.float64)
        fb = fitness(x, it)
        ok, _ = guarded(res, "C16/raises/set_evaluation_feedback",
                        cm.set_evaluation_feedback, config, state, population, fb)
        if not ok:
            return res
        fb32 = float(np.float32(fb))  # feedback is summed as a float32 array
        internal = -fb32 if case["maximize"] else fb32
        ledger.append((internal, x))
        generation.append(x)
        res.see("cmaes_tells")
        finite = [f for f, _ in ledger if not np.isnan(f)]
        if finite:
            best = min(finite)
            got = float(state.best_fitness)
            if got != best:
                res.violation("C16/cmaes/best_fitness",
                              f"reported best fitness {got!r} but the best "
                              f"candidate evaluated so far has {best!r}",
                              {"fit": case["fit"], "it": it})
                return res
            bp = np.asarray(state.best_params, np.float64)
            if not any(f == best and np.allclose(p, bp, rtol=1e-6, atol=1e-7)
                       for f, p in ledger):
                res.violation("C16/cmaes/best_params", "reported best parameters "
                              "are not those of a best candidate evaluated so far")
                return res
        res.see("best_ledger_checks")
        if state.it % pop == 0:
            import warnings
            with warnings.catch_warnings():
                warnings.simplefilter("ignore")
                ok, fin = guarded(res, "C16/raises/is_cmaes_finished",
                                  cm.is_cmaes_finished, config, state, population,
                                  None)
            if not ok:
                return res
            if fin:
                res.see("stopped_runs")
                break
            fit = np.asarray(population.fitness, np.float64)
            # the evaluated population: what get_next_parameters handed out
            smp = np.asarray(generation[-pop:], np.float64)
            generation = []
            var_old = float(state.var)
            ok, _ = guarded(res, "C16/raises/update_search_distribution",
                            cm.update_search_distribution, config, state, population)
            if not ok:
                return res
            n_updates += 1
            res.see("cmaes_updates")
            order = np.argsort(fit, kind="stable")
            sel = fit[order]
            mu = config.mu
            tie = len(sel) > 1 and np.any(np.diff(sel[:min(mu + 1, len(sel))]) == 0)
            want = np.sum(w[:, None] * smp[order[:mu]], axis=0)
            gotm = np.asarray(state.mean, np.float64)
            if not np.allclose(gotm, want, rtol=1e-4, atol=1e-5):
                if tie:
                    res.see("mean_checks_skipped_ties")
                else:
                    res.violation("C16/cmaes/mean_recombination",
                                  "new mean is not the weight-averaged best mu "
                                  "candidates", {"got": gotm, "want": want})
                    return res
            else:
                res.see("mean_recombination_checks")
            ratio = np.sqrt(float(state.var) / var_old)
            if not ratio <= np.exp(0.6) * (1 + 1e-5):
                res.violation("C16/cmaes/step_size_growth",
                              f"step size grew by factor {ratio!r} > e^0.6")
                return res
            C = np.asarray(state.cov, np.float64)
            if not np.all(np.isfinite(C)):
                res.violation("C16/cmaes/covariance", "covariance non-finite")
                return res
            if np.max(np.abs(C - C.T)) > 1e-5 * max(np.max(np.abs(C)), 1e-12):
                res.violation("C16/cmaes/covariance", "covariance not symmetric",
                              {"C": C})
                return res
            if np.any(np.diag(C) <= 0):
                res.violation("C16/cmaes/covariance", "non-positive variance on "
                              "the diagonal", {"diag": np.diag(C),
                                               "active": case["active"]})
                return res
            ok, samples = guarded(res, "C16/raises/sample_population",
                                  cm.sample_population, config, state)
            if not ok:
                return res
            population = cm.Population.create(samples=samples)
    res.nontrivial = n_updates >= 2
    res.state(("cmaes", dim, pop, case["active"], case["fit"]))
    return res


def run_roundtrip(case):
    res = Result()
    import gymnasium as gym
    import jax.numpy as jnp
    from flax import nnx

    from rl_blox.algorithm import cmaes as cm
    from rl_blox.blox.function_approximator import policy_head as ph
    from rl_blox.blox.function_approximator.gaussian_mlp import GaussianMLP
    from rl_blox.blox.function_approximator.layer_norm_mlp import LayerNormMLP
    from rl_blox.blox.function_approximator.mlp import MLP

    rng = np.random.default_rng(case["seed"])
    r = nnx.Rngs(int(rng.integers(1000)))
    space = gym.spaces.Box(np.array([-1.0, 0.0], np.float32),
                           np.array([2.0, 3.0], np.float32))
    arch = case["arch"]
    if arch == 0:
        net = MLP(3, 2, [5, 4], "relu", r)
    elif arch == 1:
        net = GaussianMLP(True, 3, 2, [5], "tanh", r)
    elif arch == 2:
        net = GaussianMLP(False, 3, 2, [5], "tanh", r)
    elif arch == 3:
        net = LayerNormMLP(3, 2, [5, 4], "relu", r)
    elif arch == 4:
        net = ph.DeterministicTanhPolicy(MLP(3, 2, [5], "relu", r), space)
    elif arch == 6:
        # deep: more than ten entries in the layer list
        net = MLP(3, 2, [3] * int(rng.integers(11, 14)), "tanh", r)
    elif arch == 7:
        net = LayerNormMLP(3, 2, [3] * 12, "relu", r)
    else:
        net = ph.GaussianTanhPolicy(GaussianMLP(True, 3, 2, [5], "tanh", r), space)
    ok, flat = guarded(res, "C16/raises/flat_params", cm.flat_params, net)
    if not ok:
        return res
    flat = np.asarray(flat)
    x = jnp.asarray(rng.normal(size=(4, 3)), jnp.float32)
    y0 = [np.asarray(a) for a in _outs(net(x))]
    ok, _ = guarded(res, "C16/raises/set_params", cm.set_params, net,
                    jnp.asarray(flat))
    if not ok:
        return res
    y1 = [np.asarray(a) for a in _outs(net(x))]
    if not np.array_equal(np.asarray(cm.flat_params(net)), flat) or \
            any(not np.array_equal(a, b) for a, b in zip(y0, y1)):
        res.violation("C16/params_round_trip", "set_params(flat_params(net)) "
                      "changed the network", {"arch": arch})
        return res
    v = rng.normal(size=flat.shape).astype(np.float32)
    cm.set_params(net, jnp.asarray(v))
    back = np.asarray(cm.flat_params(net))
    if not np.array_equal(back, v):
        res.violation("C16/params_round_trip", "flat_params(set_params(v)) != v",
                      {"arch": arch})
        return res
    # each leaf received its own slice in order
    import jax
    leaves = jax.tree_util.tree_leaves(nnx.state(net, nnx.Param))
    off = 0
    for leaf in leaves:
        n = int(np.prod(leaf.shape))
        if not np.array_equal(np.asarray(leaf).ravel(), v[off:off + n]):
            res.violation("C16/params_round_trip", "a leaf did not receive its "
                          "slice of the flat vector")
            return res
        off += n
    res.see("round_trips")
    res.nontrivial = True
    res.state(("roundtrip", arch))
    return res


def _outs(y):
    return list(y) if isinstance(y, tuple) else [y]


def run_cem(case):
    res = Result()
    import jax
    import jax.numpy as jnp

    from rl_blox.blox import cross_entropy_method as cem

    rng = np.random.default_rng(case["seed"])
    shape = tuple(int(x) for x in rng.integers(1, 4, size=int(rng.integers(1, 3))))
    lb = rng.normal(size=shape) * 10 ** rng.uniform(-2, 2)
    width = np.abs(rng.normal(size=shape)) * 10 ** rng.uniform(-3, 3) + 1e-3
    ub = lb + width
    lb32, ub32 = lb.astype(np.float32), ub.astype(np.float32)
    frac = rng.random(shape)
    on_boundary = rng.random() < 0.4
    if on_boundary:
        frac = np.where(rng.random(shape) < 0.5, rng.choice([0.0, 1.0], size=shape),
                        frac)
    mean = (lb32 + frac * (ub32 - lb32)).astype(np.float32)
    mean = np.clip(mean, lb32, ub32)
    var = (10 ** rng.uniform(-6, 6, size=shape)).astype(np.float32)
    n_pop = int(rng.integers(2, 51))
    key = jax.random.key(case["seed"] % 65521)
    ok, samples = guarded(res, "C16/raises/cem_sample", cem.cem_sample,
                          jnp.asarray(mean), jnp.asarray(var), key, n_pop,
                          jnp.asarray(lb32), jnp.asarray(ub32))
    if not ok:
        return res
    s = np.asarray(samples, np.float64)
    if s.shape != (n_pop,) + shape:
        res.violation("C16/cem/sample_shape", f"samples shape {s.shape}")
        return res
    ulp = 4 * np.spacing(np.maximum(np.abs(lb32), np.abs(ub32)).astype(np.float32))
    if np.any(s < lb32 - ulp) or np.any(s > ub32 + ulp) or not np.all(np.isfinite(s)):
        bad = np.argwhere((s < lb32 - ulp) | (s > ub32 + ulp))[:3]
        res.violation("C16/cem/sample_out_of_bounds",
                      f"candidate outside the bounds at {bad.tolist()}",
                      {"lb": lb32, "ub": ub32, "mean": mean, "var": var,
                       "sample": s[tuple(bad[0])] if len(bad) else None})
        return res
    res.see("cem_samples_checked", n_pop)
    n_elite = int(rng.integers(1, n_pop + 1))
    kind = rng.integers(4)
    fit = rng.normal(size=n_pop).astype(np.float32)
    tie = False
    if kind == 0:
        fit = np.round(fit)
        tie = True
    elif kind == 1:
        fit[rng.integers(n_pop)] = np.inf
        fit[rng.integers(n_pop)] = -np.inf
    alpha = float(rng.choice([0.0, 0.1, 0.25, 0.9]))
    ok, out = guarded(res, "C16/raises/cem_update", cem.cem_update, samples,
                      jnp.asarray(fit), jnp.asarray(mean), jnp.asarray(var),
                      n_elite, alpha)
    if not ok:
        return res
    nm, nv = np.asarray(out[0], np.float64), np.asarray(out[1], np.float64)
    order = np.argsort(-fit.astype(np.float64), kind="stable")
    thr = fit[order[n_elite - 1]]
    sure = np.nonzero(fit > thr)[0]
    maybe = np.nonzero(fit == thr)[0]
    need = n_elite - len(sure)
    s32 = np.asarray(samples, np.float64)

    def matches(idx):
        el = s32[idx]
        wm = alpha * mean + (1 - alpha) * el.mean(0)
        wv = alpha * var + (1 - alpha) * el.var(0)
        # float32 evaluation: values near |x| carry an absolute error of about
        # one ulp(|x|); the variance of tightly clustered elites is a
        # difference of nearly equal numbers
        u = np.spacing(np.max(np.abs(el), axis=0).astype(np.float32)).astype(
            np.float64)
        spread = np.max(np.abs(el - el.mean(0)), axis=0)
        k = max(4, len(idx))  # rounding of a float32 mean over k values
        tol_m = k * u + 1e-5 * np.abs(wm)
        tol_v = 4 * k * spread * u + (k * u) ** 2 + 1e-3 * np.abs(wv) + \
            1e-6 * np.abs(alpha * var)
        return bool(np.all(np.abs(nm - wm) <= tol_m)
                    and np.all(np.abs(nv - wv) <= tol_v))

    import itertools
    okm = False
    # candidate elite sets under ties: XLA's total order (+0.0 above -0.0, then
    # lower index), NumPy's stable order, then up to 300 other combinations
    f64 = fit.astype(np.float64)
    xla_order = np.lexsort((np.arange(n_pop), np.signbit(f64), -f64))
    for idx in (xla_order[:n_elite], order[:n_elite]):
        if matches(np.asarray(idx, dtype=int)):
            okm = True
            break
    if not okm:
        combos = itertools.islice(itertools.combinations(maybe.tolist(), need), 300)
        n_tried = 0
        for c in combos:
            n_tried += 1
            if matches(np.concatenate([sure, np.asarray(c, dtype=int)]).astype(int)):
                okm = True
                break
        if not okm and n_tried >= 300:
            # too many tied sets to enumerate: necessary condition only - the
            # tied part of the elite sum lies between the sums of the `need`
            # smallest and largest tied candidates (per dimension)
            tied = np.sort(s32[maybe], axis=0)
            lo = (s32[sure].sum(0) + tied[:need].sum(0)) / n_elite
            hi = (s32[sure].sum(0) + tied[len(tied) - need:].sum(0)) / n_elite
            wlo = alpha * mean + (1 - alpha) * np.minimum(lo, hi)
            whi = alpha * mean + (1 - alpha) * np.maximum(lo, hi)
            slack = 1e-4 * (np.abs(wlo) + np.abs(whi)) + 1e-6
            if np.all(nm >= wlo - slack) and np.all(nm <= whi + slack):
                okm = True
                res.see("cem_tie_sets_not_enumerable")
    if not okm:
        res.violation("C16/cem/update_not_from_elites",
                      f"updated mean/variance are not alpha*old + (1-alpha)*"
                      f"statistics of the {n_elite} best candidates",
                      {"fitness": fit, "n_elite": n_elite, "alpha": alpha})
        return res
    # a float32 mean over n_elite values that all sit on a bound can leave it by
    # accumulated rounding (about one ulp per few summands)
    ulp_m = ulp * (1 + n_elite / 4.0)
    if np.any(nm < lb32 - ulp_m) or np.any(nm > ub32 + ulp_m):
        res.violation("C16/cem/mean_out_of_bounds", "updated mean left the bounds",
                      {"mean": nm, "lb": lb32, "ub": ub32})
        return res
    res.see("cem_updates_checked")
    # the whole optimiser keeps its mean inside the box
    if rng.random() < 0.3:
        f = lambda x: -jnp.sum((x - jnp.asarray(ub32)) ** 2,  # noqa: E731
                               axis=tuple(range(1, x.ndim)))
        ok, m = guarded(res, "C16/raises/optimize_cem", cem.optimize_cem, f,
                        jnp.asarray(mean), jnp.asarray(np.minimum(var, 1e3)), key,
                        4, 12, 3, jnp.asarray(lb32), jnp.asarray(ub32))
        if ok:
            m = np.asarray(m, np.float64)
            if np.any(m < lb32 - ulp) or np.any(m > ub32 + ulp):
                res.violation("C16/cem/mean_out_of_bounds", "optimize_cem returned "
                              "a mean outside the bounds")
            res.see("optimize_cem_runs")
    # the optimiser loop: every recorded mean follows from the n_elite best
    # samples of its iteration (n_elite = 1, 2 and the whole population)
    if len(shape) == 1 and case["seed"] % 2:
        P = shape[0]
        n_pop2 = int(rng.integers(4, 12))
        ne = int(rng.choice([1, 1, 2, n_pop2]))
        alpha2 = 0.25
        tgt = jnp.asarray(lb32 + rng.random(P).astype(np.float32) * (ub32 - lb32))
        f2 = lambda x: -jnp.sum((x - tgt) ** 2, axis=-1)  # noqa: E731
        m0 = np.clip((lb32 + ub32) / 2, lb32, ub32).astype(np.float32)
        v0 = (((ub32 - lb32) / 2) ** 2).astype(np.float32)
        ok, out = guarded(res, "C16/raises/optimize_cem", cem.optimize_cem, f2,
                          jnp.asarray(m0), jnp.asarray(v0), key, 4, n_pop2, ne,
                          jnp.asarray(lb32), jnp.asarray(ub32), 0.0, alpha2, True)
        if not ok:
            return res
        _, path, hist = out
        path = np.asarray(path, np.float64).reshape(-1, P)
        hist = np.asarray(hist, np.float64).reshape(len(path), n_pop2, P)
        prev = m0.astype(np.float64)
        for t in range(len(path)):
            fit = np.asarray(f2(jnp.asarray(hist[t], jnp.float32)), np.float64)
            order = np.argsort(-fit, kind="stable")
            clear = ne == n_pop2 or fit[order[ne - 1]] - fit[order[ne]] > \
                1e-5 * (1 + abs(fit[order[ne]]))
            want = alpha2 * prev + (1 - alpha2) * hist[t][order[:ne]].mean(0)
            scale = np.maximum(np.abs(lb32), np.abs(ub32)).astype(np.float64)
            if clear and np.any(np.abs(path[t] - want) > 1e-5 * scale + 1e-6):
                res.violation(
                    "C16/cem/optimizer_not_from_elites",
                    f"optimize_cem (population {n_pop2}, n_elite {ne}): the mean "
                    f"after iteration {t} is not alpha * old + (1 - alpha) * mean "
                    f"of the {ne} best samples", {"got": path[t], "want": want})
                return res
            prev = path[t]
            res.see("optimizer_iterations_checked")
    res.nontrivial = bool(on_boundary or (tie and len(maybe) > need > 0))
    res.state(("cem", len(shape), on_boundary, tie))
    return res


def run_train(case):
    res = Result()
    from vf.algos import make_run

    rng = np.random.default_rng(case["seed"])
    total = int(rng.integers(6, 14))
    cfg = dict(script=[[3, "T"], [5, "U"], [2, "T"], [4, "T"]], seed=case["seed"],
               total_episodes=total, snapshots=False, low=[-1.0], high=[1.0],
               n_samples_per_update=int(rng.integers(2, 5)), active=case["active"])
    run = make_run("cmaes", cfg)
    import warnings
    with warnings.catch_warnings():
        warnings.simplefilter("ignore")
        ok, result = guarded(res, "C16/raises/train_cmaes", run.call)
    if not ok:
        return res
    rets, cur = [], 0.0
    for e in run.trace.events:
        if e["k"] == "step":
            cur += e["reward"]
            if e["terminated"] or e["truncated"]:
                rets.append(cur)
                cur = 0.0
    res.see("train_cmaes_runs")
    if rets and abs(float(result.best_fitness) - max(rets)) > 1e-5 * max(1, max(rets)):
        res.violation("C16/cmaes/best_fitness", f"train_cmaes reports best fitness "
                      f"{float(result.best_fitness)!r}; the best episode return in "
                      f"the environment log is {max(rets)!r}")
    res.nontrivial = len(rets) >= 2 * cfg["n_samples_per_update"]
    res.state(("train", case["active"]))
    return res
