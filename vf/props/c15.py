"""C15 - deferred training releases exactly the collected steps; checkpoints
only improve.

(a) assess_performance_and_checkpoint wrapped with icontract post-conditions
    and compared call by call with a reference written from the statement,
    over exhaustively enumerated and random histories; ledger oracle.
(b) in-loop: train_td7 with checkpoints on a scripted environment with
    _train_step / assess_performance_and_checkpoint / hard_target_net_update
    rebound to recording wrappers (see vf.loop).
"""

import itertools

import numpy as np

from vf.core import MonitorFired, Result, guarded

ID = "C15"
RULE = (
    "(a) all histories of <=3 (quick) / <=4 (thorough) episodes with length in "
    "{1,2,3} and return in {-2..2}, window sizes {1,2,3}, thresholds 1..6, plus "
    "random histories of <=60 episodes with reset weights in [0,1] and negative "
    "returns, the training-iteration counter advanced by the released steps as "
    "train_td7 does; (b) train_td7 runs with use_checkpoints on scripted "
    "environments. Non-trivial = history containing >=1 early cut, >=1 "
    "checkpoint replacement and the window switch; distinct = distinct history"
)
REQUIRED = {
    "calls_checked": 2000, "early_cuts": 100, "checkpoint_updates": 100,
    "window_switches": 50, "contract_evals": 2000, "td7_runs": 1,
    "td7_releases_checked": 2,
}
TIMEOUT = {"quick": 900, "thorough": 7000}
ASSUMPTIONS = ["thresholds >= 1 (a counter that starts at 0 never crosses 0)",
               "episode lengths >= 1"]
EXHAUSTIVE = False


def gen_cases(tier, seed):
    rng = np.random.default_rng(seed + 1515)
    cases = []
    max_eps = 3 if tier == "quick" else 4
    for w in (1, 2, 3):
        for thr in range(1, 7):
            cases.append(dict(kind="enum", window=w, thr=thr, max_eps=max_eps,
                              cost=1.0 if max_eps == 3 else 12.0))
    for i in range(40 if tier == "quick" else 3000):
        cases.append(dict(kind="rand", seed=int(rng.integers(1 << 30)), cost=0.5))
    n_td7 = 6 if tier == "quick" else 48
    for i in range(n_td7):
        cases.append(dict(kind="td7", seed=int(rng.integers(1 << 30)), idx=i,
                          cost=30.0))
    return cases


class Ref:
    """The rule as the statement gives it."""

    def __init__(self):
        self.eps = 0
        self.ts = 0
        self.window = 1
        self.minr = float("inf")
        self.best = -1e8  # documented initial value
        self.switched = 0

    def step(self, length, ret, it, reset_weight, long_window, threshold):
        self.eps += 1
        self.ts += length
        self.minr = min(self.minr, ret)
        update, release = False, 0
        if self.minr < self.best:
            release = self.ts
        elif self.eps == self.window:
            self.best = self.minr
            update = True
            release = self.ts
        if release > 0:
            if it < threshold <= it + release:
                self.best *= reset_weight
                self.window = long_window
                self.switched += 1
            self.eps = 0
            self.ts = 0
            self.minr = float("inf")
        return update, release


class PostBroken(MonitorFired):
    def __init__(self, what):
        super().__init__("C15/contract", f"post-condition broken: {what}")


_EVALS = [0]


def _snap_ts(checkpoint_state):
    return checkpoint_state.timesteps_since_upate


def _snap_best(checkpoint_state):
    return checkpoint_state.best_min_return


def _snap_eps(checkpoint_state):
    return checkpoint_state.episodes_since_udpate


def _snap_window(checkpoint_state):
    return checkpoint_state.max_episodes_before_update


def _post_conservation(checkpoint_state, steps_per_episode, result, OLD):
    _EVALS[0] += 1
    upd, released = result
    collected = OLD.ts + steps_per_episode
    if released == 0:
        return checkpoint_state.timesteps_since_upate == collected and not upd
    return (released == collected and checkpoint_state.timesteps_since_upate == 0
            and checkpoint_state.episodes_since_udpate == 0)


def _post_checkpoint(checkpoint_state, episode_return, result, OLD):
    upd, released = result
    if upd:
        # complete window and no return below the best so far
        return (OLD.eps + 1 == OLD.window and episode_return >= OLD.best
                and released > 0)
    return True


def contracted():
    import icontract

    from rl_blox.blox import checkpointing as cp

    f = cp.assess_performance_and_checkpoint
    f = icontract.ensure(_post_conservation,
                         error=lambda: PostBroken("released != collected / "
                                                  "counters not reset"))(f)
    f = icontract.ensure(_post_checkpoint,
                         error=lambda: PostBroken("checkpoint replaced without a "
                                                  "complete window >= best"))(f)
    for name, fn in (("ts", _snap_ts), ("best", _snap_best), ("eps", _snap_eps),
                     ("window", _snap_window)):
        f = icontract.snapshot(fn, name=name)(f)
    return f


def run_case(case):
    if case["kind"] == "td7":
        from vf.loop_td7 import run_td7_case
        return run_td7_case(case)
    res = Result()
    from rl_blox.blox.checkpointing import CheckpointState

    fn = contracted()

    def run_history(hist, window, thr, rw, it0=0):
        st = CheckpointState()
        ref = Ref()
        it = it0
        collected = 0
        released_total = 0
        flags = [0, 0, 0]
        for (length, ret) in hist:
            collected += length
            ok, out = guarded(res, "C15/raises/assess", fn, st, length, ret, it,
                              rw, window, thr)
            if not ok:
                return None
            upd, rel = out
            w_upd, w_rel = ref.step(length, ret, it, rw, window, thr)
            res.see("calls_checked")
            if (bool(upd), int(rel)) != (w_upd, w_rel):
                kind = ("release_count" if int(rel) != w_rel else "checkpoint_flag")
                res.violation(
                    f"C15/{kind}",
                    f"episode (len {length}, return {ret}) at iteration {it}: "
                    f"returned (update={upd}, released={rel}), statement gives "
                    f"(update={w_upd}, released={w_rel})",
                    {"history": hist, "window": window, "threshold": thr,
                     "reset_weight": rw})
                return None
            got_state = (st.episodes_since_udpate, st.timesteps_since_upate,
                         st.max_episodes_before_update)
            if got_state != (ref.eps, ref.ts, ref.window):
                res.violation(
                    "C15/state",
                    f"after episode (len {length}, return {ret}): counters "
                    f"(episodes, steps, window)={got_state}, statement gives "
                    f"{(ref.eps, ref.ts, ref.window)}",
                    {"history": hist, "window": window, "threshold": thr})
                return None
            if abs(st.best_min_return - ref.best) > 1e-9 * max(1, abs(ref.best)):
                res.violation("C15/best_min_return", f"best minimum return "
                              f"{st.best_min_return} vs {ref.best}",
                              {"history": hist})
                return None
            if rel and st.min_return < 1e7:
                res.violation("C15/state", "minimum return not reset after release")
                return None
            released_total += rel
            it += rel
            if rel and not upd:
                flags[0] = 1
                res.see("early_cuts")
            if upd:
                flags[1] = 1
                res.see("checkpoint_updates")
            # ledger: nothing lost, nothing duplicated
            if released_total != collected - st.timesteps_since_upate:
                res.violation("C15/ledger", f"sum released {released_total} != "
                              f"collected {collected} - pending "
                              f"{st.timesteps_since_upate}", {"history": hist})
                return None
        if ref.switched > 1:
            raise AssertionError("reference switched twice")  # harness bug
        if ref.switched:
            flags[2] = 1
            res.see("window_switches")
        return flags

    nontrivial = 0
    if case["kind"] == "enum":
        eps = [(L, r) for L in (1, 2, 3) for r in (-2, -1, 0, 1, 2)]
        for n in range(1, case["max_eps"] + 1):
            for hist in itertools.product(eps, repeat=n):
                fl = run_history(list(hist), case["window"], case["thr"], 0.9)
                if fl is None:
                    break
                nontrivial += all(fl)
                res.see("histories")
            if res.viol:
                break
        res.state(("enum", case["window"], case["thr"]))
    else:
        rng = np.random.default_rng(case["seed"])
        for _ in range(60):
            n = int(rng.integers(1, 61))
            hist = [(int(rng.integers(1, 30)),
                     float(rng.choice([rng.normal() * 10, -5.0, 0.0, 3.0,
                                       rng.integers(-3, 4)])))
                    for _ in range(n)]
            fl = run_history(hist, int(rng.integers(1, 8)),
                             int(rng.integers(1, 400)),
                             float(rng.choice([0.9, 0.0, 1.0, rng.uniform()])),
                             it0=int(rng.choice([0, 0, 5, 100])))
            if fl is None:
                break
            nontrivial += all(fl)
            res.see("histories")
    res.see("contract_evals", _EVALS[0])
    _EVALS[0] = 0
    res.see("nontrivial_histories", nontrivial)
    res.nontrivial = nontrivial > 0
    return res
