"""C13 - policy heads: sampling, log-probability and entropy describe one
distribution; greedy / epsilon-greedy selection; exploration in value-based loops.
"""

import numpy as np

from vf.core import Result, guarded
from vf.loop import rebound

ID = "C13"
RULE = (
    "softmax / Gaussian / tanh-Gaussian heads over tiny networks with random "
    "parameters and output biases pushed to extremes (logits +-1e4, "
    "log-variances +-100, beyond the clip), unbatched observations and batch "
    "sizes 1..5, action dimensions / counts 1..4, shared and separate Gaussian "
    "heads; closed forms in float64 from the head's own mean/std or logits; "
    "standardised-noise invariance across different means and scales for the "
    "same key; tabular and network greedy policies incl. ties, epsilon 0 and 1; "
    "DQN / Nature-DQN / DDQN / PER and tabular loops: each step preceded by "
    "exactly one random draw or one greedy call whose result maximises the "
    "current estimate, exploration count within 6 sigma of the schedule. "
    "Non-trivial = case with an extreme parameter setting or an unbatched / "
    "batch-1 shape; distinct by (head, shape, seed)"
)
REQUIRED = {
    "softmax_rows": 20, "gaussian_rows": 20, "tanh_gaussian_rows": 20,
    "entropy_checks": 30, "noise_invariance_checks": 20, "greedy_checks": 100,
    "loop_steps_checked": 200, "shape_combinations": 20,
    "batch_row_independence_checks": 6,
}
TIMEOUT = {"quick": 1200, "thorough": 7000}
ASSUMPTIONS = ["float32 outputs vs float64 closed forms: rtol 1e-4, atol 1e-4",
               "softmax log-probabilities come from the distribution library, "
               "which subtracts a float32 log-sum-exp: their tolerance grows with "
               "the common offset of the logits (1e-6 * max |logit|); entropy and "
               "probabilities are shift-invariant and keep the fixed tolerance",
               "exploration-rate check is statistical (6 sigma, Poisson-binomial)"]

LOG2PI = float(np.log(2 * np.pi))


def gen_cases(tier, seed):
    rng = np.random.default_rng(seed + 1313)
    k = 1 if tier == "quick" else 24
    cases = []
    for head in ("softmax", "gaussian", "tanh_gaussian"):
        for B in (None, 1, 2, 5):
            for A in (1, 2, 4):
                for r in range(2 * k):
                    cases.append(dict(kind="head", head=head, B=B, A=A,
                                      extreme="none" if r % 2 == 0 else
                                      ["pos", "neg", "mixed", "wide"][
                                          (A + (B or 0)) % 4],
                                      shared=bool(rng.integers(2)),
                                      seed=int(rng.integers(1 << 30)), cost=2))
    for i in range(6 * k):
        cases.append(dict(kind="greedy", seed=int(rng.integers(1 << 30)), cost=1))
    for algo in ("dqn", "nature_dqn", "ddqn", "per"):
        for r in range(2 * k):
            cases.append(dict(kind="dqn_loop", algo=algo, resume=bool(r % 2),
                              seed=int(rng.integers(1 << 20)), cost=8))
    for algo in ("q_learning", "sarsa", "double_q_learning", "monte_carlo", "dynaq"):
        for eps in (0.0, 0.3):
            cases.append(dict(kind="tab_loop", algo=algo, epsilon=eps,
                              seed=int(rng.integers(1 << 20)), cost=5))
    if tier == "thorough":
        for i in range(12):
            cases.append(dict(kind="softmax_freq", seed=int(rng.integers(1 << 30)),
                              cost=4))
    return cases


def run_case(case):
    return globals()["run_" + case["kind"]](case)


def set_bias(layer, vals):
    import jax.numpy as jnp

    layer.bias.value = jnp.asarray(vals, dtype=jnp.float32)


def build_head(case, rng):
    import gymnasium as gym
    from flax import nnx

    from rl_blox.blox.function_approximator import policy_head as ph
    from rl_blox.blox.function_approximator.gaussian_mlp import GaussianMLP
    from rl_blox.blox.function_approximator.mlp import MLP

    A, d = case["A"], 3
    ext = case["extreme"]
    seed = int(rng.integers(10_000))
    if case["head"] == "softmax":
        n = max(A, 2)
        net = MLP(d, n, [6], "tanh", nnx.Rngs(seed))
        if ext == "wide":
            # logits whose magnitude differs by hundreds between the rows of a
            # batch (large output weights on bounded features)
            import jax.numpy as jnp
            net.output_layer.kernel.value = net.output_layer.kernel.value * 300.0
            net.output_layer.bias.value = jnp.asarray(
                rng.normal(size=n) * 50, dtype=jnp.float32)
        elif ext != "none":
            big = float(rng.choice([1e4, 3e5]))  # large common offset
            b = {"pos": np.full(n, big), "neg": np.full(n, -big),
                 "mixed": np.where(np.arange(n) % 2 == 0, 1e4, -1e4)}[ext]
            if ext != "mixed":
                b = b + rng.normal(size=n)
            set_bias(net.output_layer, b)
        return ph.SoftmaxPolicy(net), n
    net = GaussianMLP(case["shared"], d, A, [6], "tanh", nnx.Rngs(seed))
    if ext == "wide":
        ext = "mixed"
    if ext != "none":
        lv = {"pos": np.full(A, 100.0), "neg": np.full(A, -100.0),
              "mixed": np.where(np.arange(A) % 2 == 0, 100.0, -100.0)}[ext]
        if case["shared"]:
            set_bias(net.output_layers[0],
                     np.concatenate([rng.normal(size=A) * 3, lv]))
        else:
            set_bias(net.output_layers[1], lv)
    if case["head"] == "gaussian":
        return ph.GaussianPolicy(net), A
    low = -1.0 - rng.random(A)
    high = 0.5 + 2 * rng.random(A)
    space = gym.spaces.Box(low.astype(np.float32), high.astype(np.float32))
    return ph.GaussianTanhPolicy(net, space), A


def run_head(case):
    res = Result()
    import jax
    import jax.numpy as jnp

    rng = np.random.default_rng(case["seed"])
    ok, built = guarded(res, f"C13/raises/{case['head']}/construct", build_head,
                        case, rng)
    if not ok:
        return res
    pol, A = built
    B = case["B"]
    shape = (3,) if B is None else (B, 3)
    obs = jnp.asarray(rng.normal(size=shape), dtype=jnp.float32)
    key = jax.random.key(int(rng.integers(1 << 20)))
    head = case["head"]
    bshape = () if B is None else (B,)
    tag = f"{head}"
    res.see("shape_combinations")

    def need(name, fn, *a):
        ok, out = guarded(res, f"C13/raises/{tag}/{name}", fn, *a)
        return out if ok else None

    if head == "softmax":
        probs = need("call", pol, obs)
        logits = need("logits", pol.logits, obs)
        samp = need("sample", pol.sample, obs, key)
        ent = need("entropy", pol.entropy, obs)
        if any(x is None for x in (probs, logits, samp, ent)):
            return res
        p = np.asarray(probs, np.float64)
        lg = np.asarray(logits, np.float64)
        if p.shape != bshape + (A,):
            res.violation(f"C13/{tag}/shape", f"probabilities shape {p.shape} for "
                          f"observation shape {shape}")
            return res
        if np.any(p < 0) or not np.allclose(p.sum(-1), 1.0, atol=1e-5) or \
                not np.all(np.isfinite(p)):
            res.violation(f"C13/{tag}/probabilities", "probabilities negative, "
                          "non-finite or not summing to one", {"p": p})
            return res
        lsm = lg - (np.log(np.sum(np.exp(lg - lg.max(-1, keepdims=True)), -1,
                                  keepdims=True)) + lg.max(-1, keepdims=True))
        s = np.asarray(samp)
        if s.shape != bshape or np.any(s < 0) or np.any(s >= A):
            res.violation(f"C13/{tag}/sample", f"sample {s} invalid for {A} actions "
                          f"(shape {s.shape}, expected {bshape})")
            return res
        for a in range(A):
            act = jnp.full(bshape, a, dtype=jnp.int32)
            lp = need("log_probability", pol.log_probability, obs, act)
            if lp is None:
                return res
            lp = np.asarray(lp, np.float64)
            want = lsm[..., a]
            f32 = 1e-6 * float(np.max(np.abs(lg)))  # float32 rounding of logits
            if lp.shape != bshape or not np.allclose(lp, want, rtol=1e-4,
                                                     atol=1e-4 + f32):
                res.violation(f"C13/{tag}/log_probability",
                              f"log pi(a={a}|o) = {lp} but log of the entry is "
                              f"{want}")
                return res
            fin = np.isfinite(want) & (p[..., a] > 1e-30)
            if np.any(fin) and not np.allclose(np.exp(lp[fin]) if lp.ndim else np.exp(lp),
                                               p[..., a][fin] if lp.ndim else p[..., a],
                                               rtol=1e-3 + f32, atol=1e-6):
                res.violation(f"C13/{tag}/log_probability",
                              "exp(log-probability) differs from the probability")
                return res
        with np.errstate(invalid="ignore", divide="ignore"):
            plogp = np.where(np.exp(lsm) > 0, np.exp(lsm) * lsm, 0.0)
        want_e = -plogp.sum(-1)
        e = np.asarray(ent, np.float64)
        # (reference and head see the same float32 logits; a shift-invariant
        # evaluation of the entropy does not lose precision with their offset)
        if e.shape != bshape or not np.allclose(e, want_e, rtol=1e-4, atol=1e-4):
            res.violation(f"C13/{tag}/entropy", f"entropy {e} vs closed form "
                          f"{want_e}")
            return res
        # the sampled action of a (near-)deterministic head is the arg-max
        det = p.max(-1) > 1 - 1e-9
        if np.any(det) and np.any(np.asarray(s)[det] != p.argmax(-1)[det]):
            res.violation(f"C13/{tag}/sample", "sample of a deterministic "
                          "distribution is not its only possible action")
        res.see("softmax_rows", int(np.prod(bshape)) if bshape else 1)
        res.see("entropy_checks")
    else:
        if head == "gaussian":
            raw = need("net", pol.net, obs)
            if raw is None:
                return res
            mean = np.asarray(raw[0], np.float64)
            std = np.exp(np.clip(0.5 * np.asarray(raw[1], np.float64), -20.0, 2.0))
            m2 = need("call", pol, obs)
            if m2 is None:
                return res
            if not np.allclose(np.asarray(m2, np.float64), mean, atol=1e-6):
                res.violation(f"C13/{tag}/mean", "__call__ is not the head's mean")
                return res
        else:
            ms = need("call", pol, obs)
            if ms is None:
                return res
            mean, std = (np.asarray(ms[0], np.float64), np.asarray(ms[1], np.float64))
            raw = pol.net(obs)
            y, lv = np.asarray(raw[0], np.float64), np.asarray(raw[1], np.float64)
            sc = np.asarray(pol.action_scale.value, np.float64)
            bi = np.asarray(pol.action_bias.value, np.float64)
            if not (np.allclose(mean, np.tanh(y) * sc + bi, atol=1e-5)
                    and np.allclose(std, np.exp(np.clip(0.5 * lv, -20, 2)),
                                    rtol=1e-4)):
                res.violation(f"C13/{tag}/mean_std", "mean/std are not tanh-scaled "
                              "mean and exp(clip(log_var/2))")
                return res
        if mean.shape != bshape + (A,) or std.shape != mean.shape:
            res.violation(f"C13/{tag}/shape", f"mean shape {mean.shape}, std shape "
                          f"{std.shape} for observation shape {shape}")
            return res
        if not (np.all(np.isfinite(mean)) and np.all(np.isfinite(std))
                and np.all(std > 0)):
            res.violation(f"C13/{tag}/non_finite", "mean/std non-finite or std <= 0")
            return res
        samp = need("sample", pol.sample, obs, key)
        if samp is None:
            return res
        s = np.asarray(samp, np.float64)
        if s.shape != mean.shape or not np.all(np.isfinite(s)):
            res.violation(f"C13/{tag}/sample", f"sample shape {s.shape} / "
                          f"non-finite (mean shape {mean.shape})")
            return res
        z = (s - mean) / std
        # log-density at a few actions
        for act in (s, mean, mean + std * rng.normal(size=mean.shape)):
            lp = need("log_probability", pol.log_probability, obs,
                      jnp.asarray(act, dtype=jnp.float32))
            if lp is None:
                return res
            a32 = np.asarray(jnp.asarray(act, dtype=jnp.float32), np.float64)
            want = np.sum(-np.log(std) - 0.5 * LOG2PI
                          - 0.5 * ((a32 - mean) / std) ** 2, axis=-1)
            lp = np.asarray(lp, np.float64)
            tol = 1e-3 * (1 + np.abs(want)) + 2e-2 * np.max(
                np.abs(a32 - mean) / std / np.maximum(std, 1e-30) * 1e-7
                * np.maximum(np.abs(a32), 1.0), axis=-1)
            if lp.shape != bshape or np.any(np.abs(lp - want) > tol):
                res.violation(f"C13/{tag}/log_probability",
                              f"log-density {lp} vs closed form {want} "
                              f"(shape {lp.shape}, expected {bshape})",
                              {"std": std, "extreme": case["extreme"]})
                return res
        ent = need("entropy", pol.entropy, obs)
        if ent is None:
            return res
        e = np.asarray(ent, np.float64)
        want_e = 0.5 * np.log(2 * np.pi * np.e * std**2)
        if e.shape != mean.shape or not np.allclose(e, want_e, rtol=1e-4, atol=1e-4):
            res.violation(f"C13/{tag}/entropy",
                          f"entropy (shape {e.shape}) vs per-dimension closed form "
                          f"(shape {want_e.shape}): {e} vs {want_e}")
            return res
        res.see("entropy_checks")
        # standardised-noise invariance: another head, same key, same shapes
        case2 = dict(case, extreme="none")
        pol2, _ = build_head(case2, np.random.default_rng(case["seed"] + 1))
        obs2 = jnp.asarray(rng.normal(size=shape) * 2, dtype=jnp.float32)
        s2 = need("sample", pol2.sample, obs2, key)
        if s2 is None:
            return res
        if head == "gaussian":
            r2 = pol2.net(obs2)
            m2 = np.asarray(r2[0], np.float64)
            sd2 = np.exp(np.clip(0.5 * np.asarray(r2[1], np.float64), -20, 2))
        else:
            m2, sd2 = [np.asarray(x, np.float64) for x in pol2(obs2)]
        z2 = (np.asarray(s2, np.float64) - m2) / sd2
        okz = np.abs(z - z2) <= 1e-3 * (1 + np.abs(z2)) + 1e-5 * (
            np.abs(mean) / std + np.abs(m2) / sd2)
        if not np.all(okz):
            res.violation(f"C13/{tag}/sample_not_mean_plus_std_noise",
                          "standardised noise (sample-mean)/std differs between "
                          "two heads for the same key",
                          {"z1": z, "z2": z2})
            return res
        res.see("noise_invariance_checks")
        if B is not None and B >= 2 and case["extreme"] == "none":
            # The per-row log-densities describe independent rows.  Rows whose
            # standardised noise coincides for four different keys cannot come
            # from that distribution (probability < 1e-12 per case).
            shared = True
            for kk in range(4):
                sk = s if kk == 0 else need("sample", pol.sample, obs,
                                            jax.random.fold_in(key, 1000 + kk))
                if sk is None:
                    return res
                zk = ((np.asarray(sk, np.float64) - mean) / std).reshape(-1, A)
                tolz = 1e-3 * (1 + np.abs(zk[0])) + 1e-5 * np.max(
                    np.abs(mean.reshape(-1, A)) / std.reshape(-1, A), axis=0)
                shared &= bool(np.all(np.abs(zk - zk[0]) <= tolz))
            if shared:
                res.violation(f"C13/{tag}/batch_rows_share_noise",
                              f"batch of {B}: every row receives the same standard "
                              "noise vector for each of four keys; the rows are "
                              "not the independent Gaussians that "
                              "log_probability / entropy describe", {"z": z})
                return res
            res.see("batch_row_independence_checks")
        res.see("gaussian_rows" if head == "gaussian" else "tanh_gaussian_rows",
                int(np.prod(bshape)) if bshape else 1)
    res.nontrivial = case["extreme"] != "none" or B in (None, 1)
    res.state((head, B, A, case["extreme"]))
    return res


def run_softmax_freq(case):
    res = Result()
    import jax
    import jax.numpy as jnp

    rng = np.random.default_rng(case["seed"])
    pol, A = build_head(dict(head="softmax", A=int(rng.integers(2, 5)), B=None,
                             extreme="none", shared=False), rng)
    obs = jnp.asarray(rng.normal(size=(3,)), dtype=jnp.float32)
    p = np.asarray(pol(obs), np.float64)
    n = 2000
    keys = jax.random.split(jax.random.key(case["seed"] % 9973), n)
    s = np.asarray([int(pol.sample(obs, k)) for k in keys])
    cnt = np.bincount(s, minlength=A)
    sd = np.sqrt(n * p * (1 - p))
    if np.any(np.abs(cnt - n * p) > 6 * sd + 1):
        res.violation("C13/softmax/sample_frequency", "sample frequencies deviate "
                      "> 6 sigma from the reported probabilities",
                      {"counts": cnt, "expected": n * p})
    res.see("softmax_frequency_cells", A)
    res.nontrivial = True
    return res


# ------------------------------------------------------------------ greedy
def run_greedy(case):
    res = Result()
    import jax
    import jax.numpy as jnp
    from flax import nnx

    from rl_blox.blox import q_policy, value_policy
    from rl_blox.blox.function_approximator.mlp import MLP

    rng = np.random.default_rng(case["seed"])
    for i in range(30):
        nS, nA = int(rng.integers(1, 7)), int(rng.integers(1, 5))
        q = rng.normal(size=(nS, nA)).astype(np.float32)
        s = int(rng.integers(nS))
        if i % 3 == 2:
            # Tuple(Discrete, Discrete) observations: make_q_table gives a table
            # of shape obs_shape + (n_actions,), indexed by the observation tuple
            dims = (int(rng.integers(1, 6)), int(rng.integers(1, 8)))
            q = rng.normal(size=dims + (nA,)).astype(np.float32)
            s = tuple(int(rng.integers(d)) for d in dims)
            res.see("tuple_observation_tables")
        if rng.random() < 0.4:
            q = np.round(q)
        ok, a = guarded(res, "C13/raises/greedy_policy", value_policy.greedy_policy,
                        jnp.asarray(q), s)
        if not ok:
            return res
        if not (0 <= int(a) < nA) or q[s][int(a)] != q[s].max():
            res.violation("C13/greedy/not_maximiser", f"tabular greedy action "
                          f"{int(a)} is not a maximiser of {q[s].tolist()}")
            return res
        key = jax.random.key(int(rng.integers(1 << 20)))
        ok, a0 = guarded(res, "C13/raises/epsilon_greedy_policy",
                         value_policy.epsilon_greedy_policy, jnp.asarray(q), s,
                         0.0, key)
        if not ok:
            return res
        if not (0 <= int(a0) < nA) or q[s][int(a0)] != q[s].max():
            res.violation("C13/epsilon_greedy/eps0_not_greedy",
                          f"epsilon=0 chose {int(a0)} for row {q[s].tolist()}")
            return res
        q2 = rng.normal(size=q.shape).astype(np.float32) * 5
        a1 = value_policy.epsilon_greedy_policy(jnp.asarray(q), s, 1.0, key)
        a2 = value_policy.epsilon_greedy_policy(jnp.asarray(q2), s, 1.0, key)
        if not (0 <= int(a1) < nA):
            res.violation("C13/epsilon_greedy/invalid_action",
                          f"epsilon=1 chose action {int(a1)} from a table of shape "
                          f"{q.shape} ({nA} actions)")
            return res
        if int(a1) != int(a2):
            res.violation("C13/epsilon_greedy/eps1_depends_on_values",
                          f"epsilon=1, same key: action {int(a1)} vs {int(a2)} for "
                          f"different tables")
            return res
        res.see("greedy_checks", 3)
    # epsilon=1 must spread over all actions - and over nothing else
    for shape, s0 in (((2, 4), 0), ((5, 2, 4), (3, 1)), ((4, 7, 2), (0, 6))):
        nA = shape[-1]
        q = np.zeros(shape, np.float32)
        q[..., 0] = 10.0
        seen = set()
        for j in range(60):
            seen.add(int(value_policy.epsilon_greedy_policy(
                jnp.asarray(q), s0, 1.0, jax.random.key(j))))
        if seen != set(range(nA)):
            res.violation("C13/epsilon_greedy/eps1_not_uniform",
                          f"epsilon=1 over 60 keys chose {sorted(seen)} from a table "
                          f"of shape {shape} ({nA} actions)")
            return res
        res.see("greedy_checks")
    for i in range(10):
        nA = int(rng.integers(2, 5))
        net = MLP(3, nA, [6], "tanh", nnx.Rngs(int(rng.integers(1000))))
        o = rng.normal(size=3).astype(np.float32)
        ok, a = guarded(res, "C13/raises/q_policy.greedy_policy",
                        q_policy.greedy_policy, net, o)
        if not ok:
            return res
        vals = np.asarray(net(jnp.asarray(o)[None]))[0]
        if vals[int(a)] != vals.max():
            res.violation("C13/greedy/not_maximiser", f"network greedy action "
                          f"{int(a)} is not a maximiser of {vals.tolist()}")
            return res
        res.see("greedy_checks")
    res.nontrivial = True
    return res


# ------------------------------------------------------------------ loops
def run_dqn_loop(case):
    res = Result()
    import importlib

    import jax.numpy as jnp

    from vf.algos import make_run

    algo = case["algo"]
    rng = np.random.default_rng(case["seed"])
    total = int(rng.integers(150, 260))
    if case.get("resume", True):
        total = int(rng.integers(1600, 2200))  # long enough for windowed power
    ls = int(rng.choice([0, 10, 30])) if algo != "dqn" else 0
    # resumed training: the schedule is a function of the absolute step
    G = int(rng.choice([total // 3, total // 2])) if case.get("resume", True) \
        else 0
    cfg = dict(script=[[5, "T"], [8, "U"], [3, "T"]], seed=case["seed"],
               total_timesteps=total, learning_starts=ls, batch_size=4,
               global_step=G,
               update_frequency=2 if G == 0 else 20, target_update_frequency=7,
               snapshots=False,
               logger=False, n_actions=3)
    run = make_run(algo, cfg)
    mod = importlib.import_module(run.patch_modules[0])
    tr = run.trace
    orig = mod.greedy_policy

    def greedy(q_net, obs):
        a = orig(q_net, obs)
        vals = np.asarray(q_net(jnp.asarray(obs)[None]))[0]
        tr.ev("greedy", obs=np.array(obs, copy=True), action=int(a), values=vals)
        return a

    with rebound([(mod, "greedy_policy", greedy)]):
        ok, _ = guarded(res, f"C13/raises/train_{algo}", run.call)
    if not ok:
        return res
    pending = []
    cur = None
    n_explore = 0
    k = 0
    probs = []
    explore_flags = []
    eps_sched = np.full(total, 0.1)
    ts = int(total * 0.1)
    if ts > 0:
        eps_sched[:ts] = np.linspace(1.0, 0.1, ts)
    for e in tr.events:
        if e["k"] == "reset":
            cur = e["obs"]
        elif e["k"] in ("rand_action", "greedy"):
            pending.append(e)
        elif e["k"] == "step":
            if len(pending) != 1:
                res.violation(f"C13/loop/action_source/{algo}",
                              f"step {k} preceded by {len(pending)} action "
                              f"selections (expected exactly one)")
                return res
            src = pending[0]
            pending = []
            if src["k"] == "greedy":
                explore_flags.append(0)
                if not np.array_equal(src["obs"], cur):
                    res.violation(f"C13/loop/greedy_on_stale_observation/{algo}",
                                  "greedy action computed for another observation")
                    return res
                if src["values"][src["action"]] != src["values"].max():
                    res.violation(f"C13/loop/not_greedy/{algo}",
                                  f"step {k}: greedy call returned "
                                  f"{src['action']} for values "
                                  f"{src['values'].tolist()}")
                    return res
                if int(e["action"]) != src["action"]:
                    res.violation(f"C13/loop/action_not_executed/{algo}",
                                  f"step {k}: executed action {e['action']} is not "
                                  f"the selected one {src['action']}")
                    return res
                if G + k < ls:
                    res.violation(f"C13/loop/greedy_during_warmup/{algo}",
                                  f"step {G + k} < learning_starts {ls} acted "
                                  f"greedily")
                    return res
            else:
                n_explore += 1
                explore_flags.append(1)
                if int(e["action"]) != int(src["action"]):
                    res.violation(f"C13/loop/action_not_executed/{algo}",
                                  f"step {k}: executed {e['action']}, sampled "
                                  f"{src['action']}")
                    return res
            probs.append(1.0 if G + k < ls else float(eps_sched[G + k]))
            cur = e["obs"]
            k += 1
            res.see("loop_steps_checked")
    probs = np.asarray(probs)
    # windowed: the exploration rate must follow the schedule locally, too
    W = 50
    for w0 in range(0, len(probs) - W + 1, W):
        pw = probs[w0:w0 + W]
        cnt = sum(explore_flags[w0:w0 + W])
        if abs(cnt - pw.sum()) > 6 * np.sqrt(np.sum(pw * (1 - pw))) + 1.5:
            res.violation(
                f"C13/loop/exploration_rate/{algo}",
                f"steps {G + w0}..{G + w0 + W - 1} (resumed at {G} of {total}): "
                f"{cnt} exploratory steps, documented schedule gives "
                f"{pw.sum():.1f} +- {np.sqrt(np.sum(pw * (1 - pw))):.1f}")
            return res
    mean, sd = probs.sum(), np.sqrt(np.sum(probs * (1 - probs)))
    if abs(n_explore - mean) > 6 * sd + 1:
        res.violation(f"C13/loop/exploration_rate/{algo}",
                      f"{n_explore} exploratory steps of {k} (resumed at step {G} "
                      f"of {total}); documented schedule "
                      f"(1.0 -> 0.1 over the first 10%, all steps before "
                      f"learning_starts={ls}) gives {mean:.1f} +- {sd:.1f}")
    res.nontrivial = k > 60
    res.state((algo, ls, G > 0))
    return res


def run_tab_loop(case):
    res = Result()
    import importlib

    from vf.algos import make_run

    algo, eps = case["algo"], case["epsilon"]
    cfg = dict(script=[[4, "T"], [6, "U"], [3, "T"]] if eps else
               [[1, "T"], [1, "T"], [1, "U"], [2, "T"], [1, "T"], [9, "T"],
                [1, "T"], [14, "U"], [1, "T"], [7, "T"]],
               seed=case["seed"],
               total_timesteps=80 if eps else (2400 if algo == "double_q_learning" else 800),
               snapshots=False, logger=False,
               # greedy runs: frequent self-transitions and long episodes (the
               # same row is updated and acted on again)
               self_loop_p=0.0 if eps else 0.35,
               fixed_start_p=0.0 if eps else 0.7,
               n_states=4,
               n_actions=3, epsilon=eps, gamma=0.9, learning_rate=0.3)
    run = make_run(algo, cfg)
    mod = importlib.import_module(run.patch_modules[0])
    tr = run.trace
    orig = mod.epsilon_greedy_policy

    def eg(q_table, observation, epsilon, key):
        a = orig(q_table, observation, epsilon, key)
        tr.ev("eg", obs=int(observation), action=int(a), epsilon=float(epsilon),
              row=np.asarray(q_table)[int(observation)].copy())
        return a

    patches = [(mod, "epsilon_greedy_policy", eg)]
    # the current estimates: the table as of the latest update (single-table
    # learners whose update routine returns the new table)
    upd = {"q_learning": "_update_policy", "sarsa": "_update_policy",
           "dynaq": "q_learning_update"}.get(algo)
    if upd is not None:
        orig_upd = getattr(mod, upd)

        def update(*a, **kw):
            out = orig_upd(*a, **kw)
            tr.ev("table", q=np.asarray(out).copy())
            return out

        patches.append((mod, upd, update))
    if algo == "double_q_learning":
        # two tables: the behaviour estimates are their sum; one update returns
        # the first table it was given, the other one stays as it is
        orig_dql = mod._dql_update

        def dql(key, qa, qb, *a, **kw):
            out = orig_dql(key, qa, qb, *a, **kw)
            tr.ev("table", q=np.asarray(out) + np.asarray(qb))
            return out

        patches.append((mod, "_dql_update", dql))
    with rebound(patches):
        ok, _ = guarded(res, f"C13/raises/train_{algo}", run.call)
    if not ok:
        return res
    last_eg = None
    current = np.asarray(run.kwargs["q_table"]).copy() if upd is not None else None
    if algo == "double_q_learning":
        current = np.asarray(run.kwargs["q_table1"]) + np.asarray(
            run.kwargs["q_table2"])
    k = nongreedy = 0
    for e in tr.events:
        if e["k"] == "table":
            current = e["q"]
        elif e["k"] == "eg":
            # the most recent policy evaluation decides the next step (SARSA may
            # carry the action it evaluated for the successor - that is valid)
            last_eg = e
            if abs(e["epsilon"] - eps) > 1e-9:
                res.violation(f"C13/loop/epsilon/{algo}", f"policy called with "
                              f"epsilon {e['epsilon']}, configured {eps}")
                return res
        elif e["k"] == "step":
            if last_eg is None:
                res.violation(f"C13/loop/action_source/{algo}",
                              f"step {k} without an action selection")
                return res
            if int(e["action"]) != last_eg["action"] or last_eg["obs"] != e["prev"]:
                res.violation(f"C13/loop/action_not_executed/{algo}",
                              f"step {k}: executed action {e['action']} in state "
                              f"{e['prev']}; the latest policy evaluation selected "
                              f"{last_eg['action']} for state {last_eg['obs']}")
                return res
            row = last_eg["row"]
            if row[last_eg["action"]] != row.max():
                nongreedy += 1
                if eps == 0.0:
                    res.violation(f"C13/loop/not_greedy/{algo}",
                                  f"epsilon=0 but step {k} chose "
                                  f"{last_eg['action']} for values {row.tolist()}")
                    return res
            if eps == 0.0 and current is not None:
                # "act greedily on their current estimates": the table as of
                # this step, not the one an earlier selection was made on
                crow = current[int(e["prev"])]
                if crow[int(e["action"])] != crow.max():
                    res.violation(
                        f"C13/loop/not_greedy_on_current_estimates/{algo}",
                        f"epsilon=0: step {k} executed action {int(e['action'])} in "
                        f"state {e['prev']} whose current values are "
                        f"{crow.tolist()} (the action was selected on "
                        f"{row.tolist()}, before an update of that row)")
                    return res
                res.see("greedy_on_current_table_checks")
            k += 1
            res.see("loop_steps_checked")
    if eps > 0:
        sd = np.sqrt(k * eps * (1 - eps))
        if nongreedy > k * eps + 6 * sd + 1:
            res.violation(f"C13/loop/exploration_rate/{algo}",
                          f"{nongreedy} non-greedy steps of {k} with epsilon={eps}")
    res.nontrivial = k > 50
    res.state((algo, eps))
    return res
