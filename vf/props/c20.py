"""C20 - loggers record faithfully and checkpoint exactly at interval crossings.

List-based reference for MemoryLogger / StandardLogger / LoggerList; cadence
reference floor(step/i) > floor(last/i) for OrbaxCheckpointer, epoch % i == 0
for StandardLogger.  The model's parameters are changed before every record so
that each checkpoint identifies its record; every listed path is restored.
"""

import os
import shutil
import tempfile

import numpy as np

from vf.core import Result, guarded

ID = "C20"
RULE = (
    "call histories (<=200 calls) of start_new_episode / stop_episode / "
    "record_stat with explicit or implicit episode/step and several keys on "
    "MemoryLogger, StandardLogger and LoggerList; record_epoch sequences with "
    "non-decreasing steps (repeats, jumps over several intervals, exact "
    "multiples, implicit steps) and intervals 1..50 on OrbaxCheckpointer and "
    "StandardLogger, every listed checkpoint restored and compared with the "
    "parameters of its record. Non-trivial = history with >=1 implicit and >=1 "
    "explicit location (stat cases) / >=1 jump over several intervals or exact "
    "multiple (cadence cases); distinct by (kind, interval, seed)"
)
REQUIRED = {
    "stat_records_checked": 300, "counter_checks": 100, "list_member_checks": 16,
    "lists_with_member_history": 8,
    "orbax_records": 100, "orbax_saves": 10, "orbax_restores": 10,
    "standard_saves": 5, "standard_restores": 5,
}
TIMEOUT = {"quick": 900, "thorough": 7000}
ASSUMPTIONS = ["wall-clock field of a record is excluded from the comparison",
               "steps given to the checkpointer are non-decreasing (statement)"]


def gen_cases(tier, seed):
    rng = np.random.default_rng(seed + 2020)
    k = 1 if tier == "quick" else 24
    cases = []
    for i in range(60 * k):
        cases.append(dict(kind="stats", which=["memory", "standard", "list"][i % 3],
                          history=bool((i // 3) % 2),
                          n_ops=int(rng.integers(20, 200)),
                          seed=int(rng.integers(1 << 30)), cost=0.2))
    for i in range(32 * k):
        cases.append(dict(kind="orbax", interval=int(rng.choice(
            [1, 2, 3, 5, 10, 50, int(rng.integers(1, 51))])),
            n=int(rng.integers(8, 40)), seed=int(rng.integers(1 << 30)), cost=3.0))
    for i in range(12 * k):
        cases.append(dict(kind="standard", interval=int(rng.choice([1, 2, 3, 7])),
                          n=int(rng.integers(5, 25)),
                          seed=int(rng.integers(1 << 30)), cost=2.0))
    return cases


def run_case(case):
    return globals()["run_" + case["kind"]](case)


def _mk_loggers(which, tmp):
    from rl_blox.logging import logger as lg

    if which == "memory":
        m = lg.MemoryLogger()
        return m, [m]
    if which == "standard":
        s = lg.StandardLogger(checkpoint_dir=tmp, verbose=0)
        return s, [s]
    a, b, c = lg.MemoryLogger(), lg.StandardLogger(checkpoint_dir=tmp, verbose=0), \
        lg.MemoryLogger()
    return lg.LoggerList([a, b, c]), [a, b, c]


def run_stats(case):
    res = Result()
    rng = np.random.default_rng(case["seed"])
    tmp = tempfile.mkdtemp(prefix="vf-c20-")
    try:
        ok, pair = guarded(res, "C20/raises/constructor", _mk_loggers,
                           case["which"], tmp)
        if not ok:
            return res
        top, members = pair
        if rng.random() < 0.5:
            top.define_experiment("env", "alg", {"a": 1})
        # continued use: members of a list may have been used on their own
        # before (different episode / step counters); what the list forwards is
        # then recorded under each member's own current counters
        ep_off = [0] * len(members)
        st_off = [0] * len(members)
        pre = {}  # member index -> records made before the list was used
        if len(members) > 1 and case.get("history"):
            for j, m in enumerate(members):
                for _ in range(int(rng.integers(0, 4)) if j else 0):
                    m.start_new_episode()
                    ep_off[j] += 1
                    stp = int(rng.integers(1, 9))
                    m.stop_episode(stp)
                    st_off[j] += stp
                    pre.setdefault(j, []).append((stp, ep_off[j], st_off[j]))
            res.see("lists_with_member_history")
        ref = {}  # key -> list of (value, episode, step)
        n_ep = 0
        n_steps = 0
        keys = ["return", "q loss", "x", "episode_length"]
        implicit = explicit = 0
        uid = 0
        for _ in range(case["n_ops"]):
            r = rng.random()
            if r < 0.2:
                ok, _ = guarded(res, "C20/raises/start_new_episode",
                                top.start_new_episode)
                n_ep += 1
            elif r < 0.35:
                st = int(rng.integers(0, 30))
                ok, _ = guarded(res, "C20/raises/stop_episode", top.stop_episode, st)
                n_steps += st
                ref.setdefault("episode_length", []).append(
                    (st, n_ep, n_steps, True, True))
            else:
                key = str(rng.choice(keys[:3] if rng.random() < 0.9 else keys))
                uid += 1
                val = float(uid) + 0.5
                kw = {}
                ep, stp = n_ep, n_steps
                if rng.random() < 0.5:
                    ep = int(rng.integers(0, 50))
                    kw["episode"] = ep
                if rng.random() < 0.5:
                    stp = int(rng.integers(0, 10_000))
                    kw["step"] = stp
                if kw:
                    explicit += 1
                if len(kw) < 2:
                    implicit += 1
                if rng.random() < 0.2:
                    kw["t"] = 1.25
                ok, _ = guarded(res, "C20/raises/record_stat", top.record_stat,
                                key, val, **kw)
                ref.setdefault(key, []).append(
                    (val, ep, stp, "episode" not in kw, "step" not in kw))
            if not ok:
                return res
            # counters advance exactly with the calls
            for j, m in enumerate(members):
                if m.n_episodes != n_ep + ep_off[j] or m.n_steps != n_steps + st_off[j]:
                    res.violation("C20/counters", f"{type(m).__name__}: "
                                  f"n_episodes={m.n_episodes}, n_steps={m.n_steps}; "
                                  f"calls imply {n_ep + ep_off[j]}, "
                                  f"{n_steps + st_off[j]}")
                    return res
            if top.n_episodes != n_ep + ep_off[0]:
                res.violation("C20/counters", f"top-level n_episodes "
                              f"{top.n_episodes} != {n_ep + ep_off[0]}")
                return res
            res.see("counter_checks")
        # retrieval
        got_all = []
        for j, m in enumerate(members):
            got = {}
            for key, recs0 in ref.items():
                # implicit locations are the member's own counters
                recs = [(v, e + (ep_off[j] if ie else 0), s_ + (st_off[j] if is_ else 0))
                        for v, e, s_, ie, is_ in recs0]
                if key == "episode_length":
                    recs = pre.get(j, []) + recs
                ok, xy_e = guarded(res, "C20/raises/get_stat", m.get_stat, key,
                                   "episode")
                ok2, xy_s = guarded(res, "C20/raises/get_stat", m.get_stat, key,
                                    "step")
                if not (ok and ok2):
                    return res
                (xe, ye), (xs, ys) = xy_e, xy_s
                want_v = [r[0] for r in recs]
                if (list(np.asarray(ye, float)) != want_v
                        or list(np.asarray(ys, float)) != want_v
                        or [int(v) for v in xe] != [r[1] for r in recs]
                        or [int(v) for v in xs] != [r[2] for r in recs]):
                    res.violation(
                        f"C20/get_stat/{type(m).__name__}",
                        f"{type(m).__name__}.get_stat('{key}') differs from the "
                        f"recorded sequence/location",
                        {"values": list(map(float, ye))[:10], "want": want_v[:10],
                         "episodes": list(map(int, xe))[:10],
                         "want_ep": [r[1] for r in recs][:10],
                         "steps": list(map(int, xs))[:10],
                         "want_step": [r[2] for r in recs][:10]})
                    return res
                got[key] = (list(map(float, ye)), list(map(int, xe)),
                            list(map(int, xs)))
                res.see("stat_records_checked", len(recs))
            # records a member made on its own before it joined the list
            extra = set(m.stats) - set(ref) - ({"episode_length"} if pre.get(j)
                                               else set())
            if extra:
                res.violation("C20/extra_records", f"unexpected keys {extra}")
            got_all.append(got)
        if len(members) > 1 and not any(ep_off) and not any(st_off):
            for g in got_all[1:]:
                if g != got_all[0]:
                    res.violation("C20/list_members_differ",
                                  "LoggerList members hold different records")
                res.see("list_member_checks")
        res.nontrivial = implicit > 0 and explicit > 0
        res.state((case["which"], min(n_ep, 5), len(ref)))
        return res
    finally:
        shutil.rmtree(tmp, ignore_errors=True)


def _tiny_model(variant=0):
    """variant 0: plain MLP; variant 1: tanh policy (has non-Param variables
    action_scale / action_bias that a checkpoint must contain as well)."""
    import gymnasium as gym
    from flax import nnx

    from rl_blox.blox.function_approximator.mlp import MLP
    from rl_blox.blox.function_approximator.policy_head import (
        DeterministicTanhPolicy,
    )

    net = MLP(2, 2, [3], "relu", nnx.Rngs(0))
    if variant == 0:
        return net
    space = gym.spaces.Box(low=np.array([-1.0, 0.5], dtype=np.float32),
                           high=np.array([2.0, 4.0], dtype=np.float32))
    return DeterministicTanhPolicy(net, space)


def _inner(model):
    return getattr(model, "policy_net", model)


def _set_tag(model, k):
    import jax.numpy as jnp

    _inner(model).output_layer.bias.value = jnp.full((2,), float(k))


def _restored_tag(path, model):
    import jax

    from rl_blox.blox.probabilistic_ensemble import restore_checkpoint

    m = restore_checkpoint(path, model)
    from flax import nnx

    leaves_r = jax.tree_util.tree_leaves(nnx.state(m))
    leaves_o = jax.tree_util.tree_leaves(nnx.state(model))
    same_but_bias = sum(
        1 for a, b in zip(leaves_r, leaves_o) if np.array_equal(a, b))
    if len(leaves_r) != len(leaves_o):
        raise RuntimeError("restored module has a different number of variables")
    # the restored module must be usable
    import jax.numpy as jnp

    y = np.asarray(m(jnp.ones((1, 2))))
    if not np.all(np.isfinite(y)):
        raise RuntimeError("restored module gives non-finite output")
    return (float(np.asarray(_inner(m).output_layer.bias.value)[0]), same_but_bias,
            len(leaves_o))


def run_orbax(case):
    res = Result()
    from rl_blox.logging.checkpointer import OrbaxCheckpointer

    rng = np.random.default_rng(case["seed"])
    tmp = tempfile.mkdtemp(prefix="vf-c20-")
    try:
        ok, ck = guarded(res, "C20/raises/constructor", OrbaxCheckpointer,
                         checkpoint_dir=tmp, verbose=0)
        if not ok:
            return res
        i = case["interval"]
        use_list = rng.random() < 0.3
        top = ck
        if use_list:
            from rl_blox.logging.logger import LoggerList, MemoryLogger
            top = LoggerList([MemoryLogger(), ck])
        top.define_experiment("e", "a", None)
        if case["seed"] % 3 == 0:
            # a logger that has counted steps before the interval is defined
            # (re-used logger, continued run); records are still judged by the
            # multiples of the interval they pass since the previous record
            top.start_new_episode()
            top.stop_episode(int(rng.integers(1, 3 * i + 2)))
            res.see("orbax_interval_defined_on_used_logger")
        top.define_checkpoint_frequency("q", i)
        variant = case["seed"] % 2
        model = _tiny_model(variant)
        last = 0
        step = 0
        saved = []  # (path index, record tag)
        jumped = False
        other_key_records = 0
        for k in range(1, case["n"] + 1):
            mode = rng.integers(6)
            implicit = False
            if mode == 0:
                pass  # repeat
            elif mode == 1:
                step += 1
            elif mode == 2:
                step += int(rng.integers(1, i + 1))
            elif mode == 3:
                step += int(rng.integers(i, 3 * i + 2))
                jumped = True
            elif mode == 4:
                step = (step // i + 1) * i  # exact multiple
                jumped = True
            else:
                # implicit step: taken from the logger's own step counter
                d = int(rng.integers(0, 2 * i + 1))
                new = max(step, ck.n_steps + d)
                top.stop_episode(new - ck.n_steps)
                step = new
                implicit = True
            if rng.random() < 0.2:
                # a key without a checkpoint interval must never save
                n0 = sum(len(v) for v in ck.checkpoint_path.values())
                top.record_epoch("other", model, step=step)
                other_key_records += 1
                if sum(len(v) for v in ck.checkpoint_path.values()) != n0:
                    res.violation("C20/orbax/undefined_key_saved",
                                  "checkpoint written for a key without interval")
                    return res
            _set_tag(model, k)
            n_before = len(ck.checkpoint_path["q"])
            kw = {} if implicit else {"step": step}
            if rng.random() < 0.3:
                kw["episode"] = int(rng.integers(0, 9))
            ok, _ = guarded(res, "C20/raises/record_epoch", top.record_epoch,
                            "q", model, **kw)
            if not ok:
                return res
            grew = len(ck.checkpoint_path["q"]) - n_before
            want = 1 if step // i > last // i else 0
            if grew != want:
                res.violation(
                    "C20/orbax/cadence",
                    f"record at step {step} after step {last} with interval {i}: "
                    f"{grew} checkpoint(s) written, expected {want}",
                    {"implicit_step": implicit})
                return res
            if grew:
                saved.append((len(ck.checkpoint_path["q"]) - 1, k))
                res.see("orbax_saves")
            res.see("orbax_records")
            last = step
        paths = ck.checkpoint_path["q"]
        if len(set(paths)) != len(paths):
            res.violation("C20/orbax/duplicate_path", "a checkpoint path is listed "
                          "twice", {"paths": paths})
        fresh = _tiny_model(variant)
        for idx, tag in saved:
            p = paths[idx]
            if not os.path.exists(p):
                res.violation("C20/orbax/not_restorable", f"listed path {p} missing")
                return res
            ok, out = guarded(res, "C20/orbax/not_restorable", _restored_tag, p, fresh)
            if not ok:
                return res
            got, same, n = out
            if got != float(tag):
                res.violation("C20/orbax/wrong_content", f"checkpoint {idx} holds "
                              f"parameters of record {got}, written on record {tag}")
                return res
            res.see("orbax_restores")
        res.nontrivial = jumped
        res.state(("orbax", i, len(saved) > 0, use_list))
        return res
    finally:
        shutil.rmtree(tmp, ignore_errors=True)


def run_standard(case):
    res = Result()
    from rl_blox.logging.logger import StandardLogger

    rng = np.random.default_rng(case["seed"])
    tmp = tempfile.mkdtemp(prefix="vf-c20-")
    try:
        ok, lg = guarded(res, "C20/raises/constructor", StandardLogger,
                         checkpoint_dir=tmp, verbose=0)
        if not ok:
            return res
        lg.define_experiment("e", "a", None)
        i = case["interval"]
        variant = case["seed"] % 2
        model = _tiny_model(variant)
        saved = []
        n_q = 0
        # the interval may be defined after epochs of that key were recorded;
        # "every interval-th recorded epoch" counts all of them
        n_early = int(rng.integers(0, 4)) if case["seed"] % 3 == 0 else 0
        for _ in range(n_early):
            ok, _r = guarded(res, "C20/raises/record_epoch", lg.record_epoch, "q",
                             model)
            if not ok:
                return res
            n_q += 1
        if n_early and len(lg.checkpoint_path.get("q", [])):
            res.violation("C20/standard/undefined_key_saved",
                          "checkpoint written before an interval was defined")
            return res
        lg.define_checkpoint_frequency("q", i)
        if n_early:
            res.see("standard_interval_defined_late")
        for k in range(1, case["n"] + 1):
            if rng.random() < 0.25:
                n0 = sum(len(v) for v in lg.checkpoint_path.values())
                lg.record_epoch("other", model)
                if sum(len(v) for v in lg.checkpoint_path.values()) != n0:
                    res.violation("C20/standard/undefined_key_saved",
                                  "checkpoint written for a key without interval")
                    return res
            _set_tag(model, k)
            n_before = len(lg.checkpoint_path["q"])
            kw = {}
            if rng.random() < 0.5:
                kw["step"] = int(rng.integers(0, 1000))
            ok, _ = guarded(res, "C20/raises/record_epoch", lg.record_epoch, "q",
                            model, **kw)
            if not ok:
                return res
            n_q += 1
            grew = len(lg.checkpoint_path["q"]) - n_before
            want = 1 if n_q % i == 0 else 0
            if grew != want:
                res.violation("C20/standard/cadence", f"epoch {n_q} with interval "
                              f"{i}: {grew} checkpoint(s), expected {want}")
                return res
            if grew:
                saved.append((len(lg.checkpoint_path["q"]) - 1, k))
                res.see("standard_saves")
        fresh = _tiny_model(variant)
        for idx, tag in saved:
            p = lg.checkpoint_path["q"][idx]
            ok, out = guarded(res, "C20/standard/not_restorable", _restored_tag, p,
                              fresh)
            if not ok:
                return res
            if out[0] != float(tag):
                res.violation("C20/standard/wrong_content", f"checkpoint {idx} "
                              f"holds record {out[0]}, written on record {tag}")
                return res
            res.see("standard_restores")
        res.nontrivial = len(saved) > 0
        res.state(("standard", i, len(saved)))
        return res
    finally:
        shutil.rmtree(tmp, ignore_errors=True)
