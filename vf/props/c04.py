"""C04 - sampled subtrajectories are contiguous single-episode runs.

Observations/actions/rewards carry (episode, t, global id).  After every
add_sample a stub generator makes the public sample_batch return *every*
admissible start; each window is checked row by row up to and including its
first terminated step.  The reduced view is compared with the full view of the
same starts.
"""

import itertools

import numpy as np

from vf.core import Result, guarded
from vf.stubrng import StubRng

ID = "C04"
RULE = (
    "histories of episodes (length 1..3H, terminated / truncated / still "
    "running) added to SubtrajectoryReplayBuffer / ...PER / multi-task wrapper, "
    "capacity H+1..4H+3 (several laps), storage horizon 1..5, sampling horizon "
    "1..H; after every add all admissible starts are sampled through the public "
    "API; thorough tier also enumerates all histories of <=4 episodes of length "
    "<=3 (H<=2, capacity<=6). Non-trivial = case checked >=1 window after "
    "wrap-around or >=1 window that ends in a terminated step; distinct = "
    "distinct (class, capacity, horizons, episode script)"
)
REQUIRED = {
    "windows_checked": 200, "windows_with_termination": 20,
    "windows_after_wrap": 20, "reduced_views_checked": 20, "per_windows": 20,
}
TIMEOUT = {"quick": 900, "thorough": 7000}
ASSUMPTIONS = [
    "which starts are admissible is read from the buffer's own mask only to "
    "drive the stub generator and to skip sampling when nothing is admissible; "
    "the verdict uses only the returned batches",
]


def gen_cases(tier, seed):
    rng = np.random.default_rng(seed + 4004)
    cases = []
    n_rand = 600 if tier == "quick" else 40000
    for _ in range(n_rand):
        H = int(rng.integers(1, 6))
        cap = int(rng.integers(H + 1, 4 * H + 4))
        eps = []
        total = 0
        while total < 3 * cap and len(eps) < 14:
            L = int(rng.choice([1, 1, 2, 3, H, H + 1, 2 * H, 3 * H]))
            # "B": terminated and truncated on the same step (a time limit hit
            # on a terminal step, as gymnasium's TimeLimit reports it)
            kind = str(rng.choice(["T", "T", "U", "T", "B"]))
            eps.append([L, kind])
            total += L
        if rng.random() < 0.5:
            eps.append([int(rng.integers(1, 2 * H + 2)), "R"])  # running
        cases.append(dict(
            cls=str(rng.choice(["uniform", "uniform", "per", "multi"])),
            H=H, cap=cap, h=int(rng.integers(1, H + 1)), eps=eps,
            seed=int(rng.integers(1 << 30)), cost=total / 30.0,
        ))
    # enumeration
    max_eps = 3 if tier == "quick" else 4
    kinds = [(L, k) for L in (1, 2, 3) for k in ("T", "U")]
    for H in (1, 2):
        for cap in range(H + 1, 7):
            if tier == "quick" and cap not in (H + 1, 4, 6):
                continue
            for n in range(1, max_eps + 1):
                for combo in itertools.product(kinds, repeat=n):
                    for tail in (0, 2):
                        eps = [list(c) for c in combo]
                        if tail:
                            eps.append([tail, "R"])
                        cases.append(dict(cls="uniform" if (n + cap) % 2 else "per",
                                          H=H, cap=cap, h=H, eps=eps, seed=0,
                                          enum=True, cost=0.3))
    return cases


def run_case(case):
    res = Result()
    import rl_blox.blox.replay_buffer as rb

    H, cap, h = case["H"], case["cap"], case["h"]
    per = case["cls"] == "per"
    multi = case["cls"] == "multi"
    rng = np.random.default_rng(case["seed"])
    if multi:
        per = bool(rng.integers(2))
    Cls = rb.SubtrajectoryReplayBufferPER if per else rb.SubtrajectoryReplayBuffer
    ok, base = guarded(res, "C04/raises/constructor", Cls, cap, horizon=H)
    if not ok:
        return res
    n_tasks = 2 if multi else 1
    buf = rb.MultiTaskReplayBuffer(base, n_tasks) if multi else base
    hist = {}  # gid -> (ep, t, term, trunc, task)
    gid = 0
    n_added = [0] * n_tasks
    checked_term = checked_wrap = 0

    def subbuf(t):
        return buf.buffers[t] if multi else buf

    def check_windows(task, where):
        nonlocal checked_term, checked_wrap
        b = subbuf(task)
        L = len(b)
        mask = np.asarray(b.mask_[:L])
        if per:
            if int(mask.sum()) == 0:
                res.see("no_admissible_start")
                return
            w = np.asarray(b.priority.priority[:L], dtype=float) * mask
            if not w.sum() > 0:
                # admissible starts exist (mask) but none has weight: whatever
                # the sampler returns now is checked like any other window
                mids = np.array([0.25, 0.5, 0.75])
                res.see("admissible_starts_without_priority")
            else:
                cum = np.cumsum(w)
                nzi = np.nonzero(w)[0]
                mids = ((np.concatenate(([0.0], cum[:-1])) + cum) / 2 / cum[-1])[nzi]
            nb = len(mids)
            mk = lambda: _force(StubRng(u=list(mids)), task, multi)  # noqa: E731
        else:
            nb = int(mask.sum())
            if nb == 0:
                res.see("no_admissible_start")
                return
            mk = lambda: _force(StubRng(), task, multi)  # noqa: E731
        ok, full = guarded(res, "C04/raises/sample_batch",
                           buf.sample_batch, nb, h, True, mk())
        if not ok:
            return
        obs = np.asarray(full.observation)
        act = np.asarray(full.action)
        rew = np.asarray(full.reward)
        nob = np.asarray(full.next_observation)
        ter = np.asarray(full.terminated)
        tru = np.asarray(full.truncated)
        if obs.shape[:2] != (nb, h):
            res.violation("C04/shape", f"{where}: full view has shape "
                          f"{obs.shape}, expected ({nb},{h},...)")
            return
        wrapped = n_added[task] + _fillers[task] > cap
        for bi in range(nb):
            prev = None
            ended = False
            for j in range(h):
                o = obs[bi, j]
                g = float(o[2])
                if g != int(g) or int(g) not in hist:
                    kind = ("filler row" if abs(g - int(g) - 0.125) < 1e-6
                            and int(g) in hist else "unwritten/corrupted slot")
                    res.violation(f"C04/{kind.split()[0]}_in_window",
                                  f"{where}: window {bi} row {j} is a {kind} "
                                  f"(tag {o.tolist()})",
                                  {"window_obs": obs[bi], "h": h})
                    return
                g = int(g)
                ep, t, term, trunc, tk = hist[g]
                if (int(o[0]), int(o[1])) != (ep, t) or tk != task:
                    res.violation("C04/misaligned", f"{where}: obs tag "
                                  f"{o.tolist()} inconsistent with history")
                    return
                if not (float(act[bi, j].ravel()[0]) == g + 0.5
                        and float(rew[bi, j]) == g + 0.25
                        and nob[bi, j].tolist() == [ep, t + 1, g + 0.125]
                        and int(ter[bi, j]) == int(term)
                        and int(tru[bi, j]) == int(trunc)):
                    res.violation("C04/misaligned", f"{where}: window {bi} row "
                                  f"{j}: fields are not those of transition {g}",
                                  {"act": act[bi, j], "rew": rew[bi, j],
                                   "nob": nob[bi, j], "ter": ter[bi, j],
                                   "tru": tru[bi, j], "hist": hist[g]})
                    return
                if prev is not None:
                    pep, pt, pg = prev
                    if ep != pep or t != pt + 1 or g != pg + 1:
                        res.violation(
                            "C04/not_contiguous",
                            f"{where}: window {bi} jumps from (ep {pep}, t {pt}, "
                            f"id {pg}) to (ep {ep}, t {t}, id {g}) before any "
                            f"terminated step", {"window_obs": obs[bi]})
                        return
                if trunc:
                    res.violation("C04/truncated_in_window",
                                  f"{where}: window {bi} contains truncated step "
                                  f"{g} (row {j})", {"window_obs": obs[bi]})
                    return
                prev = (ep, t, g)
                if term:
                    ended = True
                    break
            res.see("windows_checked")
            if ended:
                res.see("windows_with_termination")
                checked_term += 1
            if wrapped:
                res.see("windows_after_wrap")
                checked_wrap += 1
            if per:
                res.see("per_windows")
        res.state((case["cls"], H, h, nb, wrapped))
        # reduced view of the same starts
        ok, red = guarded(res, "C04/raises/sample_batch",
                          buf.sample_batch, nb, h, False, mk())
        if not ok:
            return
        pairs = [
            ("observation", np.asarray(red.observation), obs[:, 0]),
            ("action", np.asarray(red.action), act[:, 0]),
            ("next_observation", np.asarray(red.next_observation), nob[:, -1]),
            ("reward", np.asarray(red.reward), rew),
            ("terminated", np.asarray(red.terminated), ter),
            ("truncated", np.asarray(red.truncated), tru),
        ]
        for name, got, want in pairs:
            if got.shape != want.shape or not np.array_equal(got, want):
                res.violation("C04/reduced_view", f"{where}: reduced view field "
                              f"{name} differs from the full view of the same "
                              f"window", {"got": got, "want": want})
                return
        res.see("reduced_views_checked", nb)
        # and one batch with a real generator
        g = np.random.default_rng(int(rng.integers(1 << 30)))
        if multi:
            g = _force(g, task, True)
        ok, _ = guarded(res, "C04/raises/sample_batch", buf.sample_batch,
                        int(rng.integers(1, 6)), h, bool(rng.integers(2)), g)

    _fillers = [0] * n_tasks
    ep_no = 0
    for L, kind in case["eps"]:
        ep_no += 1
        task = int(rng.integers(n_tasks)) if multi else 0
        if multi:
            buf.select_task(task)
        for t in range(L):
            gid += 1
            last = t == L - 1
            term = last and kind in ("T", "B")
            trunc = last and kind in ("U", "B")
            hist[gid] = (ep_no, t, term, trunc, task)
            sample = dict(
                observation=np.array([ep_no, t, gid], dtype=float),
                action=np.array([gid + 0.5]),
                reward=gid + 0.25,
                next_observation=np.array([ep_no, t + 1, gid + 0.125]),
                terminated=term, truncated=trunc,
            )
            if gid % 3 == 0:  # keyword arguments have no order
                sample = dict(reversed(list(sample.items())))
            ok, _ = guarded(res, "C04/raises/add_sample", buf.add_sample, **sample)
            if not ok:
                return res
            n_added[task] += 1
            if term or trunc:
                _fillers[task] += 1
            res.see("adds")
            for tk in range(n_tasks):
                if n_added[tk]:
                    check_windows(tk, f"after add id {gid} (ep {ep_no}, t {t}, "
                                      f"{'T' if term else 'U' if trunc else '-'})")
                    if res.viol:
                        return res
    res.nontrivial = checked_term > 0 or checked_wrap > 0
    return res


class _Force:
    def __init__(self, inner, t):
        self.inner, self.t = inner, t

    def choice(self, a, size=None, **kw):
        a = np.asarray(a)
        val = self.t if self.t in a.tolist() else a[0]
        return val if size is None else np.full(size, val)

    def __getattr__(self, name):
        return getattr(self.inner, name)


def _force(g, t, multi):
    return _Force(g, t) if multi else g
