"""C03 - critic and representation losses implement their documented targets
per sample.

The monitor makes the forward passes itself through the same real modules,
computes y = r + (1 - terminated) * gamma * bootstrap and the documented
regression in float64, and compares value and auxiliary outputs; metamorphic
oracles on the real function: batch permutation, terminated rows with an
arbitrary successor (bitwise), zero gradient w.r.t. target modules and
bootstrap inputs, per-sample decomposition, batch size 1.
"""

import numpy as np

from vf import parts
from vf.core import Result, guarded

ID = "C03"
RULE = (
    "dqn / nature_dqn / ddqn / ddqn_per / ddpg / td3 / td3_lap / sac losses, "
    "td7_update_critic, mrq_loss, state_action_embedding_loss, "
    "model_based_encoder_loss with independently initialised online and target "
    "networks (parameters rescaled x{0.1,1,30}), termination patterns none / all "
    "/ mixed, gamma in {0,0.5,0.99,1}, alpha, clip ranges, horizons 1..4, batch "
    "sizes {1,2,4,6}, observation dim {1,3,5}, action dim {1,3}, discrete "
    "actions {2,5}. Non-trivial = case with a mixed termination pattern (both "
    "flags present) and N >= 2; distinct by (loss, shape, seed)"
)
REQUIRED = {
    "reference_values_checked": 60, "terminated_successor_swaps": 30,
    "permutation_checks": 30, "zero_gradient_checks": 30,
    "per_sample_decompositions": 20, "batch_size_one_checks": 8,
}
TIMEOUT = {"quick": 1500, "thorough": 7000}
ASSUMPTIONS = [
    "references follow the docstrings: TD7 value clipping, MR.Q reward scaling "
    "and n-step discount, LAP's Huber with min_priority, PER's mean TD-error aux",
    "rtol 1e-4 (float32 evaluation vs float64 reference)",
]

LOSSES = ["dqn", "nature_dqn", "ddqn", "ddqn_per", "ddpg", "td3", "td3_lap", "sac",
          "td7_critic", "mrq", "sale", "encoder"]
GAMMAS = [0.0, 0.5, 0.99, 1.0]


def gen_cases(tier, seed):
    rng = np.random.default_rng(seed + 303)
    k = 2 if tier == "quick" else 36
    cases = []
    for loss in LOSSES:
        for N in (1, 2, 4, 6):
            for r in range(k):
                cases.append(dict(
                    loss=loss, N=N, d=int(rng.choice([1, 3, 5])),
                    A=int(rng.choice([1, 3])), nA=int(rng.choice([2, 5])),
                    gamma=float(rng.choice(GAMMAS)),
                    scale=float(rng.choice([0.1, 1.0, 30.0])),
                    term=str(rng.choice(["mixed", "mixed", "none", "all"])),
                    h=int(rng.integers(1, 5)), seed=int(rng.integers(1 << 30)),
                    cost=8 if loss in ("encoder", "mrq", "td7_critic") else 3))
                if r == 0:
                    # one case per (loss, N) that is informative by construction:
                    # mixed terminations, discounting on, window of 2-4 steps
                    cases[-1].update(term="mixed", gamma=float(rng.choice([0.5, 0.99])),
                                     h=2 + N % 3)
    return cases


def huber(e, d):
    e = np.abs(e)
    return np.where(e <= d, 0.5 * e**2, d * (e - 0.5 * d))


def f64(x):
    return np.asarray(x, np.float64)


class Setup:
    """inputs: dict of arrays; call(inputs) -> (loss, aux tuple);
    reference(inputs) -> (loss, aux tuple); successor keys; target modules."""


def make_setup(case, rng):
    import jax
    import jax.numpy as jnp
    from flax import nnx

    from rl_blox.blox import losses as L
    from rl_blox.blox.replay_buffer import ReplayBuffer, SubtrajectoryReplayBuffer

    N, d, A, nA, g = case["N"], case["d"], case["A"], case["nA"], case["gamma"]
    sc = case["scale"]
    loss = case["loss"]
    S = Setup()
    B = ReplayBuffer(1).Batch
    key = jax.random.key(int(rng.integers(1 << 20)))
    term = parts.term_pattern(rng, N, case["term"] if N > 1 else
                              str(rng.choice(["none", "all"])))
    j = lambda a: jnp.asarray(a, jnp.float32)  # noqa: E731
    inp = dict(obs=rng.normal(size=(N, d)).astype(np.float32),
               rew=(rng.normal(size=N) * 3).astype(np.float32),
               nobs=rng.normal(size=(N, d)).astype(np.float32),
               term=term.astype(np.int32))
    S.row_keys = ["obs", "act", "rew", "nobs", "term"]
    S.successor_keys = ["nobs"]
    S.extra_modules = {}
    if loss in ("dqn", "nature_dqn", "ddqn", "ddqn_per"):
        q, qt = parts.mlp(rng, d, nA, scale=sc), parts.mlp(rng, d, nA, scale=sc)
        inp["act"] = rng.integers(0, nA, size=N).astype(np.int32)
        tied = nA >= 2 and rng.random() < 0.35
        if tied:
            # two actions whose online values coincide exactly everywhere (equal
            # output columns); the target network values them differently
            k_ = np.array(q.output_layer.kernel.value)
            b_ = np.array(q.output_layer.bias.value)
            k_[:, 1], b_[1] = k_[:, 0], b_[0]
            k_[:, 0] += 0.0
            q.output_layer.kernel.value = jnp.asarray(k_)
            q.output_layer.bias.value = jnp.asarray(b_)
            S.tied_actions = True
        if loss == "ddqn_per":
            inp["w"] = rng.uniform(0.1, 1.0, size=N).astype(np.float32)
            S.row_keys.append("w")

        def batch_of(i):
            return B(j(i["obs"]), jnp.asarray(i["act"]), j(i["rew"]), j(i["nobs"]),
                     jnp.asarray(i["term"]))

        S.modules = {"q": q, "q_target": qt}

        def call(i, mods=None):
            M = {**S.modules, **(mods or {})}
            q_, qt_ = M["q"], M["q_target"]
            b = batch_of(i)
            if loss == "dqn":
                out = L.dqn_loss(q_, b, g)
            elif loss == "nature_dqn":
                out = L.nature_dqn_loss(q_, qt_, b, g)
            elif loss == "ddqn":
                out = L.ddqn_loss(q_, qt_, b, g)
            else:
                o = L.ddqn_per_loss(q_, qt_, b, g, j(i["w"]))
                return o[0], tuple(o[1])
            return out[0], (out[1],)

        def ref(i):
            qo = f64(q(j(i["obs"])))
            qn = f64(q(j(i["nobs"])))
            qtn = f64(qt(j(i["nobs"])))
            pred = qo[np.arange(N), i["act"]]
            if loss == "dqn":
                boot = qn.max(1)
            elif loss == "nature_dqn":
                boot = qtn.max(1)
            else:
                sel = qn.argmax(1)
                if getattr(S, "tie_choice", None) is not None:
                    # another maximiser of the online values (equally valid)
                    is_max = qn == qn.max(1, keepdims=True)
                    for b_ in range(N):
                        alts = np.flatnonzero(is_max[b_])
                        sel[b_] = alts[(S.tie_choice >> b_) % len(alts)] \
                            if len(alts) > 1 and (S.tie_choice >> b_) & 1 else sel[b_]
                boot = qtn[np.arange(N), sel]
            y = f64(i["rew"]) + (1 - i["term"]) * g * boot
            if loss == "ddqn_per":
                td = np.abs(pred - y)
                return np.mean(f64(i["w"]) * td**2), (pred.mean(), td.mean())
            return np.mean((pred - y) ** 2), (pred.mean(),)

        S.targets = {} if loss == "dqn" else {"q_target": qt}
        S.online = q
        S.call_mod = call
    elif loss in ("ddpg", "td3", "td3_lap", "sac"):
        space = parts.box(rng, A)
        inp["act"] = rng.normal(size=(N, A)).astype(np.float32)
        if loss == "ddpg":
            q, qt = (parts.mlp(rng, d + A, 1, scale=sc),
                     parts.mlp(rng, d + A, 1, scale=sc))
            pt = parts.tanh_policy(rng, space, d)
        else:
            q, qt = parts.double_q(rng, d + A, sc), parts.double_q(rng, d + A, sc)
        if loss in ("td3", "td3_lap"):
            inp["nact"] = rng.normal(size=(N, A)).astype(np.float32)
            S.row_keys.append("nact")
            S.successor_keys.append("nact")
        if loss == "sac":
            pol = parts.gaussian_tanh_policy(rng, space, d)
            alpha = float(rng.choice([0.0, 0.2, 1.0]))
        minp = float(rng.choice([1.0, 0.1]))

        def batch_of(i):
            return B(j(i["obs"]), j(i["act"]), j(i["rew"]), j(i["nobs"]),
                     jnp.asarray(i["term"]))

        S.modules = {"q": q, "q_target": qt}
        if loss == "ddpg":
            S.modules["policy_target"] = pt
        if loss == "sac":
            S.modules["policy"] = pol

        def call(i, mods=None):
            M = {**S.modules, **(mods or {})}
            b = batch_of(i)
            q_, qt_ = M["q"], M["q_target"]
            if loss == "ddpg":
                o = L.ddpg_loss(q_, qt_, M["policy_target"], b, g)
            elif loss == "td3":
                o = L.td3_loss(q_, qt_, j(i["nact"]), b, g)
            elif loss == "td3_lap":
                o = L.td3_lap_loss(q_, qt_, j(i["nact"]), b, g, minp)
                return o[0], tuple(o[1])
            else:
                o = L.sac_loss(q_, qt_, M["policy"], key, alpha, b, g)
            return o[0], (o[1],)

        def ref(i):
            oa = jnp.concatenate((j(i["obs"]), j(i["act"])), -1)
            if loss == "ddpg":
                na = pt(j(i["nobs"]))
                boot = f64(qt(jnp.concatenate((j(i["nobs"]), na), -1))).reshape(N)
                pred = f64(q(oa)).reshape(N)
                y = f64(i["rew"]) + (1 - i["term"]) * g * boot
                return np.mean((pred - y) ** 2), (pred.mean(),)
            if loss == "sac":
                na = pol.sample(j(i["nobs"]), key)
                lp = f64(pol.log_probability(j(i["nobs"]), na))
            else:
                na = j(i["nact"])
            noa = jnp.concatenate((j(i["nobs"]), na), -1)
            boot = np.minimum(f64(qt.q1(noa)), f64(qt.q2(noa))).reshape(N)
            if loss == "sac":
                boot = boot - alpha * lp
            y = f64(i["rew"]) + (1 - i["term"]) * g * boot
            q1, q2 = f64(q.q1(oa)).reshape(N), f64(q.q2(oa)).reshape(N)
            qm = np.minimum(q1, q2).mean()
            if loss == "td3_lap":
                t1, t2 = np.abs(q1 - y), np.abs(q2 - y)
                return (huber(t1, minp).mean() + huber(t2, minp).mean(),
                        (qm, np.maximum(t1, t2)))
            return np.mean((q1 - y) ** 2) + np.mean((q2 - y) ** 2), (qm,)

        S.targets = {"q_target": qt}
        if loss == "ddpg":
            S.targets["policy_target"] = pt
        if loss == "sac":
            S.targets["policy"] = pol  # only used under stop_gradient
        S.online = q
        S.call_mod = call
    elif loss == "td7_critic":
        from rl_blox.algorithm import td7
        st, space = parts.td7_state(rng, d)
        A = 2
        fixed, fixed_t = nnx.clone(st.embedding), nnx.clone(st.embedding)
        parts.rescale(fixed, 1.2)
        parts.rescale(fixed_t, 0.8)
        critic_t = nnx.clone(st.critic)
        parts.rescale(critic_t, 0.7)
        parts.rescale(st.critic, sc if sc != 30.0 else 3.0)
        inp["act"] = rng.normal(size=(N, A)).astype(np.float32)
        inp["nact"] = rng.normal(size=(N, A)).astype(np.float32)
        S.row_keys.append("nact")
        S.successor_keys.append("nact")
        qmin, qmax = float(rng.choice([-1e6, -0.5])), float(rng.choice([1e6, 0.5]))
        if rng.random() < 0.35:
            # degenerate range, e.g. TD7's initial target range [0, 0]
            qmin = qmax = float(rng.choice([0.0, 0.05, -0.3]))
        minp = 1.0

        def call(i, mods=None):
            critic = nnx.clone(st.critic)  # the routine updates its critic
            o = parts.opt(critic)
            out = td7.td7_update_critic(
                fixed, fixed_t, critic, critic_t, o, g, j(i["obs"]), j(i["act"]),
                j(i["nobs"]), j(i["nact"]), j(i["rew"]), jnp.asarray(i["term"]),
                minp, qmin, qmax)
            return out[0], (out[1], out[2])

        def ref(i):
            zsa, zs = fixed(j(i["obs"]), j(i["act"]))
            nzsa, nzs = fixed_t(j(i["nobs"]), j(i["nact"]))
            noa = jnp.concatenate((j(i["nobs"]), j(i["nact"])), -1)
            qn = np.minimum(f64(critic_t.q1(noa, zsa=nzsa, zs=nzs)),
                            f64(critic_t.q2(noa, zsa=nzsa, zs=nzs))).reshape(N)
            qn = np.clip(qn, qmin, qmax)
            y = f64(i["rew"]) + (1 - i["term"]) * g * qn
            oa = jnp.concatenate((j(i["obs"]), j(i["act"])), -1)
            q1 = f64(st.critic.q1(oa, zsa=zsa, zs=zs)).reshape(N)
            q2 = f64(st.critic.q2(oa, zsa=zsa, zs=zs)).reshape(N)
            t1, t2 = np.abs(q1 - y), np.abs(q2 - y)
            return (huber(t1, minp).mean() + huber(t2, minp).mean(),
                    (np.maximum(t1, t2), y))

        S.targets = {}
        S.online = None
        S.call_mod = call
        S.modules = {}
    elif loss == "mrq":
        from rl_blox.algorithm.mrq import mrq_loss
        SB = SubtrajectoryReplayBuffer(4).Batch
        st, space = parts.mrq_state(rng, d)
        A = 2
        h = case["h"]
        enc = st.policy_with_encoder.encoder
        enc_t = nnx.clone(enc)
        parts.rescale(enc_t, 0.9)
        q_t = nnx.clone(st.q)
        parts.rescale(q_t, 0.8)
        inp["act"] = rng.normal(size=(N, A)).astype(np.float32)
        inp["nact"] = rng.normal(size=(N, A)).astype(np.float32)
        inp["rew"] = rng.normal(size=(N, h)).astype(np.float32)
        tm = np.zeros((N, h), np.int32)
        for b in range(N):
            if term[b]:
                # positions rotate over the window, so that every run has
                # terminations followed by non-terminated flags (and, for
                # h >= 3, two terminations in one window)
                tm[b, b % h] = 1
                if h >= 3 and b % 3 == 0:
                    tm[b, h - 1] = 1
        inp["term"] = tm
        S.row_keys.append("nact")
        S.successor_keys.append("nact")
        rs, trs = float(rng.uniform(0.5, 2)), float(rng.uniform(0.5, 2))

        S.modules = {"q": st.q, "q_target": q_t, "encoder": enc,
                     "encoder_target": enc_t}

        def call(i, mods=None):
            M = {**S.modules, **(mods or {})}
            b = SB(j(i["obs"]), j(i["act"]), j(i["rew"]), j(i["nobs"]),
                   jnp.asarray(i["term"]), jnp.zeros_like(jnp.asarray(i["term"])))
            out = mrq_loss(M["q"], M["q_target"], M["encoder"],
                           M["encoder_target"], j(i["nact"]), b, g, rs, trs)
            return out[0], (out[1][1], out[1][2])

        def ref(i):
            R = np.zeros(N)
            disc = np.ones(N)
            for t in range(h):
                R += disc * f64(i["rew"])[:, t]
                disc *= g * (1 - i["term"][:, t])
            nzs = enc_t.encode_zs(j(i["nobs"]))
            nzsa = enc_t.encode_zsa(nzs, j(i["nact"]))
            qn = np.minimum(f64(q_t.q1(nzsa)), f64(q_t.q2(nzsa))).reshape(N)
            y = (R + disc * qn * trs) / rs
            zs = enc.encode_zs(j(i["obs"]))
            zsa = enc.encode_zsa(zs, j(i["act"]))
            q1, q2 = f64(st.q.q1(zsa)).reshape(N), f64(st.q.q2(zsa)).reshape(N)
            t1, t2 = np.abs(q1 - y), np.abs(q2 - y)
            return (huber(t1, 1.0).mean() + huber(t2, 1.0).mean(),
                    (np.minimum(q1, q2).mean(), np.maximum(t1, t2)))

        def through_update(i):
            """The critic loss as reported by the routine MR.Q updates critic and
            policy with (on copies, SGD): same arguments, same documented value."""
            import optax
            from rl_blox.algorithm.mrq import update_critic_and_policy
            q_c, pol_c = nnx.clone(st.q), nnx.clone(st.policy_with_encoder.policy)
            qo = nnx.Optimizer(q_c, optax.sgd(1e-3), wrt=nnx.Param)
            po = nnx.Optimizer(pol_c, optax.sgd(1e-3), wrt=nnx.Param)
            b = SB(j(i["obs"]), j(i["act"]), j(i["rew"]), j(i["nobs"]),
                   jnp.asarray(i["term"]), jnp.zeros_like(jnp.asarray(i["term"])))
            out = update_critic_and_policy(q_c, q_t, qo, pol_c, po, enc, enc_t, g,
                                           1e-5, j(i["nact"]), b, rs, trs)
            return np.asarray([float(out[0])], np.float64)

        S.through_update = through_update
        S.through_update_n = 1
        S.targets = {"q_target": q_t, "encoder_target": enc_t}
        S.online = st.q
        S.call_mod = call
        S.term_rows = lambda i: i["term"].any(1)
    elif loss == "sale":
        from rl_blox.blox.embedding.sale import SALE, state_action_embedding_loss
        emb = SALE(parts.mlp(rng, d, 4, "elu", sc), parts.mlp(rng, 4 + A, 4, "elu"))
        inp["act"] = rng.normal(size=(N, A)).astype(np.float32)

        S.modules = {"embedding": emb}

        def call(i, mods=None):
            M = {**S.modules, **(mods or {})}
            return state_action_embedding_loss(M["embedding"], j(i["obs"]),
                                               j(i["act"]), j(i["nobs"])), ()

        def ref(i):
            zsa, _ = emb(j(i["obs"]), j(i["act"]))
            zsp = emb.state_embedding(j(i["nobs"]))
            return np.mean((f64(zsa) - f64(zsp)) ** 2), ()

        S.targets = {}
        S.online = emb
        S.call_mod = call
        S.no_termination = True
    elif loss == "encoder":
        from rl_blox.blox.embedding.model_based_encoder import (
            model_based_encoder_loss,
        )
        from rl_blox.blox.preprocessing import two_hot_encoding
        SB = SubtrajectoryReplayBuffer(4).Batch
        st, space = parts.mrq_state(rng, d)
        A = 2
        h = case["h"]
        enc = st.policy_with_encoder.encoder
        enc_t = nnx.clone(enc)
        parts.rescale(enc_t, 0.9)
        inp = dict(obs=rng.normal(size=(N, h, d)).astype(np.float32),
                   act=rng.normal(size=(N, h, A)).astype(np.float32),
                   rew=rng.normal(size=(N, h)).astype(np.float32),
                   nobs=rng.normal(size=(N, h, d)).astype(np.float32))
        tm = np.zeros((N, h), np.int32)
        for b in range(N):
            if term[b]:
                # positions rotate over the window, so that every run has
                # terminations followed by non-terminated flags (and, for
                # h >= 3, two terminations in one window)
                tm[b, b % h] = 1
                if h >= 3 and b % 3 == 0:
                    tm[b, h - 1] = 1
        inp["term"] = tm
        wd, wr, wdn = (float(rng.choice([1.0, 1.0, 0.0, 0.5])),
                       float(rng.choice([0.0, 0.1, 1.0])),
                       float(rng.choice([0.0, 0.1, 1.0])))
        env_term = bool(rng.random() < 0.8)
        norm = bool(rng.random() < 0.7)
        bins = st.the_bins

        S.modules = {"encoder": enc, "encoder_target": enc_t}

        def call(i, mods=None):
            M = {**S.modules, **(mods or {})}
            b = SB(j(i["obs"]), j(i["act"]), j(i["rew"]), j(i["nobs"]),
                   jnp.asarray(i["term"]), jnp.zeros_like(jnp.asarray(i["term"])))
            out = model_based_encoder_loss(
                M["encoder"], M["encoder_target"], bins, b, h, wd, wr, wdn,
                env_term, norm)
            return out[0], tuple(out[1][:3])

        def ref(i):
            zs = enc.encode_zs(j(i["obs"][:, 0]))
            mask = np.ones(N)
            Ld = Lr = Ldn = 0.0
            for t in range(h):
                done, zs, logits = enc.model_head(zs, j(i["act"][:, t]))
                tz = (enc_t.encode_zs(j(i["nobs"][:, t])) if norm
                      else enc_t.zs(j(i["nobs"][:, t])))
                Ld += np.mean((f64(zs) - f64(tz)) ** 2 * mask[:, None])
                lg = f64(logits)
                lsm = lg - (np.log(np.sum(np.exp(lg - lg.max(1, keepdims=True)), 1,
                                          keepdims=True)) + lg.max(1, keepdims=True))
                th = f64(two_hot_encoding(bins, j(i["rew"][:, t])))
                Lr += np.mean(-np.sum(th * lsm, 1) * mask)
                if env_term:
                    Ldn += np.mean((f64(done) - i["term"][:, t]) ** 2 * mask)
                mask = mask * (1 - i["term"][:, t])
            return wd * Ld + wr * Lr + wdn * Ldn, (Ld, Lr, Ldn)

        def through_update(i):
            """The same loss as reported by the update routine MR.Q trains the
            encoder with (one mini-batch, SGD on a copy of the encoder): the
            value it differentiates is the documented weighted sum."""
            import optax
            from rl_blox.blox.embedding.model_based_encoder import (
                update_model_based_encoder)
            enc_c = nnx.clone(enc)
            opt = nnx.Optimizer(enc_c, optax.sgd(1e-3), wrt=nnx.Param)
            b = SB(j(i["obs"]), j(i["act"]), j(i["rew"]), j(i["nobs"]),
                   jnp.asarray(i["term"]), jnp.zeros_like(jnp.asarray(i["term"])))
            out = update_model_based_encoder(
                enc_c, enc_t, opt, bins, h, wd, wr, wdn, 1, N, norm, b, env_term)
            return np.asarray(out, np.float64)

        S.through_update = through_update
        S.row_keys = ["obs", "act", "rew", "nobs", "term"]
        S.successor_keys = []
        S.targets = {"encoder_target": enc_t}
        S.online = enc
        S.call_mod = call
        S.term_rows = None
        S.encoder = True
    S.inp, S.ref = inp, ref
    S.call = lambda i: S.call_mod(i, None)
    S.grad_keys = [] if loss == "td7_critic" else list(S.successor_keys)
    return S


def same_aux(got, want, rtol=2e-4):
    if len(got) < len(want):
        return False
    for gv, wv in zip(got, want):
        gv, wv = f64(gv), f64(wv)
        if gv.shape != np.shape(wv):
            return False
        if not np.allclose(gv, wv, rtol=rtol, atol=2e-5 * (1 + np.max(np.abs(wv)))):
            return False
    return True


def run_case(case):
    res = Result()
    import jax
    import jax.numpy as jnp
    from flax import nnx

    loss, N = case["loss"], case["N"]
    rng = np.random.default_rng(case["seed"])
    ok, S = guarded(res, f"C03/raises/setup/{loss}", make_setup, case, rng)
    if not ok:
        return res
    if N == 1:
        # same per-sample value or loud rejection
        import traceback
        try:
            val, aux = S.call(S.inp)
        except Exception:  # noqa: BLE001
            if "/rl_blox/" in traceback.format_exc():
                res.see("batch_size_one_rejected")
                res.see("batch_size_one_checks")
                res.nontrivial = True
                return res
            raise
        rv, raux = S.ref(S.inp)
        res.see("batch_size_one_checks")
        if not np.isclose(float(val), rv, rtol=2e-4, atol=1e-6 * (1 + abs(rv))):
            res.violation(f"C03/{loss}/batch_size_one",
                          f"batch size 1: loss {float(val)!r} differs from the "
                          f"per-sample value {rv!r} without an error")
        res.nontrivial = True
        return res
    ok, out = guarded(res, f"C03/raises/{loss}", S.call, S.inp)
    if not ok:
        return res
    val, aux = out
    rv, raux = S.ref(S.inp)
    res.see("reference_values_checked")
    if getattr(S, "tied_actions", False) and loss in ("ddqn", "ddqn_per") and \
            not np.isclose(float(val), rv, rtol=2e-4, atol=1e-6 * (1 + abs(rv))):
        # the selection may break ties differently: any maximiser is a valid
        # double-Q selection; try every per-row alternative
        for choice in range(1, 1 << N):
            S.tie_choice = choice
            rv2, raux2 = S.ref(S.inp)
            if np.isclose(float(val), rv2, rtol=2e-4, atol=1e-6 * (1 + abs(rv2))):
                rv, raux = rv2, raux2
                break
        S.tie_choice = None
    if getattr(S, "tied_actions", False):
        res.see("cases_with_tied_greedy_actions")
    if not np.isclose(float(val), rv, rtol=2e-4, atol=1e-6 * (1 + abs(rv))):
        res.violation(f"C03/{loss}/value",
                      f"loss {float(val)!r}, documented target/regression gives "
                      f"{rv!r}", {"term": S.inp["term"], "gamma": case["gamma"],
                                   "N": N})
        return res
    if not same_aux(aux, raux):
        res.violation(f"C03/{loss}/aux", "auxiliary outputs differ from the "
                      "reference", {"got": [f64(a) for a in aux],
                                    "want": [f64(a) for a in raux]})
        return res
    if getattr(S, "through_update", None) is not None:
        ok, rep = guarded(res, f"C03/raises/update_routine/{loss}",
                          S.through_update, S.inp)
        if not ok:
            return res
        n_rep = getattr(S, "through_update_n", 4)
        want = [rv] + [float(x) for x in list(raux)[:n_rep - 1]]
        if not np.allclose(rep[:n_rep], want, rtol=2e-4, atol=1e-6):
            res.violation(f"C03/{loss}/update_routine_loss",
                          "the update routine optimises / reports "
                          f"{rep[:n_rep].tolist()}, the documented loss "
                          f"([total, dynamics, reward, done] for the encoder) "
                          f"is {want}")
            return res
        res.see("update_routine_losses_checked")
    # ---- permutation invariance
    perm = rng.permutation(N)
    if loss == "sac":
        # next actions are sampled with per-position noise: the loss is only
        # invariant in distribution; keep the order
        perm = np.arange(N)
    pin = {k: (v[perm] if k in S.row_keys else v) for k, v in S.inp.items()}
    okp, outp = guarded(res, f"C03/raises/{loss}", S.call, pin)
    if not okp:
        return res
    if not np.isclose(float(outp[0]), float(val), rtol=1e-4,
                      atol=1e-6 * (1 + abs(float(val)))):
        res.violation(f"C03/{loss}/batch_order", f"loss changed under a batch "
                      f"permutation: {float(val)!r} -> {float(outp[0])!r}")
        return res
    res.see("permutation_checks")
    # ---- terminated rows: successor replaced -> bitwise equal
    term = S.inp["term"]
    if getattr(S, "encoder", False) or getattr(S, "no_termination", False):
        pass
    else:
        rows = term.any(1) if term.ndim == 2 else term.astype(bool)
        if rows.any() and S.successor_keys:
            sin = dict(S.inp)
            for kx in S.successor_keys:
                v = S.inp[kx].copy()
                v[rows] = rng.normal(size=v[rows].shape) * 7
                sin[kx] = v
            oks, outs = guarded(res, f"C03/raises/{loss}", S.call, sin)
            if not oks:
                return res
            if f64(outs[0]).tobytes() != f64(val).tobytes():
                res.violation(
                    f"C03/{loss}/terminated_bootstrap",
                    f"a terminated transition contributes a bootstrap term: loss "
                    f"{float(val)!r} -> {float(outs[0])!r} when only the successor "
                    f"of terminated rows changed")
                return res
            res.see("terminated_successor_swaps")
    # ---- zero gradient w.r.t. target modules
    for name, modt in S.targets.items():
        others = {k: v for k, v in S.modules.items() if k != name}

        def f(m, rest, name=name):
            return S.call_mod(S.inp, {**rest, name: m})[0]
        okg, gr = guarded(res, f"C03/raises/{loss}", lambda f=f, modt=modt,
                          others=others: nnx.grad(f, argnums=0)(modt, others))
        if not okg:
            return res
        gl = [np.asarray(x) for x in jax.tree_util.tree_leaves(gr)]
        if any(np.any(x != 0) for x in gl):
            res.violation(f"C03/{loss}/gradient_into_target",
                          f"non-zero gradient with respect to '{name}'")
            return res
        res.see("zero_gradient_checks")
    # ---- zero gradient w.r.t. bootstrap inputs
    for kx in S.grad_keys:
        def fb(x, mods, kx=kx):
            i2 = dict(S.inp)
            i2[kx] = x
            return S.call_mod(i2, mods)[0]
        okb, gb = guarded(res, f"C03/raises/{loss}",
                          lambda fb=fb, kx=kx: nnx.grad(fb, argnums=0)(
                              jnp.asarray(S.inp[kx]), dict(S.modules)))
        if not okb:
            return res
        if np.any(np.asarray(gb) != 0):
            res.violation(f"C03/{loss}/gradient_into_bootstrap_input",
                          f"non-zero gradient with respect to '{kx}'")
            return res
        res.see("zero_gradient_checks")
    # ---- per-sample decomposition
    # (not for sac_loss: its next actions are sampled with per-position noise, so
    # sub-batches see other noise than the full batch - found by the seed sweep)
    if N % 2 == 0 and N >= 4 and loss not in ("td7_critic", "sac"):
        tot = 0.0
        for a in range(0, N, 2):
            sub = {k: (v[a:a + 2] if k in S.row_keys else v)
                   for k, v in S.inp.items()}
            oks, outs = guarded(res, f"C03/raises/{loss}", S.call, sub)
            if not oks:
                return res
            tot += float(outs[0])
        tot /= N // 2
        if not np.isclose(tot, float(val), rtol=2e-4, atol=1e-6 * (1 + abs(float(val)))):
            res.violation(f"C03/{loss}/not_per_sample",
                          f"loss of the batch {float(val)!r} is not the mean of "
                          f"the losses of its 2-row sub-batches {tot!r}")
            return res
        res.see("per_sample_decompositions")
    mixed = bool(term.any() and not term.all())
    res.nontrivial = mixed
    res.state((loss, N, case["term"], case["gamma"]))
    return res


def _call_traced(S, inputs):
    """Call the loss with (possibly traced) inputs."""
    return S.call_mod(inputs, None)[0]
