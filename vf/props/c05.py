"""C05 - each update routine changes only the component it trains.

Bitwise comparison of every module / optimizer passed to (or reachable from)
the routine, before vs after; direct drive of every update routine and
in-loop attribution of parameter changes to the routine that ran in the
segment between two consecutive snapshots.
"""

import numpy as np

from vf import parts
from vf.core import Result, guarded
from vf.loop import rebound

ID = "C05"
RULE = (
    "every update routine (train_step_with_loss x 8 losses, ddpg_update_actor, "
    "sac_update_actor, entropy update, td7_update_critic / td7_update_actor, "
    "update_sale, update_model_based_encoder, update_critic_and_policy, "
    "update_ppo, train_policy_a2c, train_value_function, train_policy_reinforce, "
    "train_policy_actor_critic, train_epoch, soft / hard target updates) and "
    "every loss evaluation / acting call on random batches and independently "
    "initialised modules; in-loop traces of DQN family, DDPG, TD3(+LAP), SAC, "
    "TD7, MR.Q with all delays >= 2. Non-trivial = the trainee did change and "
    ">= 2 bystander objects were compared; distinct by (routine, seed)"
)
REQUIRED = {
    "direct_routines_checked": 40, "bystanders_bitwise_checked": 80,
    "trainee_changed_checks": 30, "no_change_calls_checked": 20,
    "in_loop_segments_checked": 500, "routines_traced": 9,
    "tiny_gradient_updates_checked": 4,
}
TIMEOUT = {"quick": 1500, "thorough": 7000}
ASSUMPTIONS = ["non-Param variables (action scale / bias) are part of the "
               "comparison and must not move",
               "the trainee is required to change only when its gradient was "
               "checked to be non-zero"]

ROUTINES = [
    "ts_dqn", "ts_nature", "ts_ddqn", "ts_per", "ts_ddpg", "ts_td3", "ts_td3lap",
    "ts_sac", "ddpg_actor", "sac_actor", "entropy", "td7_critic", "td7_actor",
    "sale", "encoder", "mrq_cp", "ppo", "a2c_policy", "value_fn", "reinforce_policy",
    "ac_policy", "train_epoch", "train_ensemble", "pets_model_update", "soft", "hard",
    "mt_ts_ddqn", "mt_ts_nature", "mt_mrq_cp", "mt_encoder",
]
LOOP_ALGOS = ["dqn", "nature_dqn", "ddqn", "per", "ddpg", "td3", "td3_lap", "sac",
              "td7", "mrq"]
COST = {"mrq": 16, "td7": 10, "sac": 6}


def gen_cases(tier, seed):
    from vf.algos import random_options
    rng = np.random.default_rng(seed + 505)
    k = 2 if tier == "quick" else 40
    cases = []
    for r in ROUTINES:
        for i in range(k):
            cases.append(dict(kind="direct", routine=r, far=bool(i % 2),
                              seed=int(rng.integers(1 << 30)),
                              cost=6 if r in ("encoder", "mrq_cp", "ppo") else 3))
    for r in ROUTINES:
        if r.startswith("ts_") and r not in ("ts_sac", "ts_td3lap"):
            for i in range(max(1, k // 4)):
                cases.append(dict(kind="direct", routine=r, far=False, tiny=True,
                                  seed=int(rng.integers(1 << 30)), cost=3))
    for i in range(2 * k):
        cases.append(dict(kind="nochange", seed=int(rng.integers(1 << 30)), cost=5))
    for algo in LOOP_ALGOS:
        for i in range(max(1, k // 2)):
            cases.append(dict(kind="loop", algo=algo,
                              options=random_options(algo, rng) if i % 2 else {},
                              seed=int(rng.integers(1 << 20)),
                              cost=3 * COST.get(algo, 3)))
    return cases


def run_case(case):
    return globals()["run_" + case["kind"]](case)


# ------------------------------------------------------------------ builders
def _tiny(rng, batch, *critics):
    """Value scale of about 1e-8 (round 9): all parameters of the critics times
    1e-4 (outputs ~1e-8) and rewards ~1e-8, so that every gradient entry is tiny
    (<= ~1e-7) but the gradient is not zero (the output-bias entry is the mean
    TD error).  Adam rescales it: the unchanged routine moves the output bias
    by about half the learning rate."""
    import jax.numpy as jnp

    for c in critics:
        parts.rescale(c, 1e-4)
    r = (rng.normal(size=batch.reward.shape) + 3.0) * 1e-8
    return batch._replace(reward=jnp.asarray(r, jnp.float32))


def build(routine, rng, far=False, tiny=False):
    """-> (call, objects dict, trainee names)"""
    import jax
    import jax.numpy as jnp

    from rl_blox.algorithm import a2c, actor_critic, ddpg, dqn, ppo, reinforce, sac, td7
    from rl_blox.blox import losses as L

    N = int(rng.choice([2, 3, 7]))
    key = jax.random.key(int(rng.integers(1 << 20)))
    if routine.startswith("ts_"):
        if routine in ("ts_dqn", "ts_nature", "ts_ddqn", "ts_per"):
            q, qt = parts.mlp(rng, 3, 3), parts.mlp(rng, 3, 3)
            o = parts.opt(q)
            batch = parts.flat_batch(rng, N, discrete=3)
            if tiny:
                batch = _tiny(rng, batch, q, qt)
            objs = dict(q=q, q_opt=o, q_target=qt)
            if routine == "ts_dqn":
                call = lambda: dqn.train_step_with_loss(L.dqn_loss, o, q, batch, 0.9)  # noqa: E731
            elif routine == "ts_nature":
                call = lambda: dqn.train_step_with_loss(  # noqa: E731
                    L.nature_dqn_loss, o, q, qt, batch, 0.9)
            elif routine == "ts_ddqn":
                call = lambda: dqn.train_step_with_loss(L.ddqn_loss, o, q, qt, batch, 0.9)  # noqa: E731
            else:
                w = jnp.asarray(rng.uniform(0.1, 1, N), jnp.float32)
                call = lambda: dqn.train_step_with_loss(  # noqa: E731
                    L.ddqn_per_loss, o, q, qt, batch, 0.9, w)
            return call, objs, {"q", "q_opt"}
        space = parts.box(rng)
        batch = parts.flat_batch(rng, N)
        if far:
            # rewards far from zero (Pendulum-like): every TD error of a fresh
            # critic is large, the robust losses are in their linear regime
            batch = batch._replace(reward=batch.reward * 0.1 - 12.0)
        if routine == "ts_ddpg":
            q, qt = parts.mlp(rng, 5, 1), parts.mlp(rng, 5, 1)
            pt = parts.tanh_policy(rng, space)
            o = parts.opt(q)
            if tiny:
                batch = _tiny(rng, batch, q, qt)
            call = lambda: dqn.train_step_with_loss(L.ddpg_loss, o, q, qt, pt, batch, 0.9)  # noqa: E731
            return call, dict(q=q, q_opt=o, q_target=qt, policy_target=pt), {"q", "q_opt"}
        q, qt = parts.double_q(rng, 5), parts.double_q(rng, 5)
        o = parts.opt(q)
        if tiny:
            batch = _tiny(rng, batch, q, qt)
        na = jnp.asarray(rng.normal(size=(N, 2)), jnp.float32)
        if routine == "ts_td3":
            call = lambda: dqn.train_step_with_loss(L.td3_loss, o, q, qt, na, batch, 0.9)  # noqa: E731
            return call, dict(q=q, q_opt=o, q_target=qt), {"q", "q_opt"}
        if routine == "ts_td3lap":
            call = lambda: dqn.train_step_with_loss(  # noqa: E731
                L.td3_lap_loss, o, q, qt, na, batch, 0.9, 1.0)
            return call, dict(q=q, q_opt=o, q_target=qt), {"q", "q_opt"}
        pol = parts.gaussian_tanh_policy(rng, space)
        call = lambda: dqn.train_step_with_loss(  # noqa: E731
            L.sac_loss, o, q, qt, pol, key, 0.2, batch, 0.9)
        return call, dict(q=q, q_opt=o, q_target=qt, policy=pol), {"q", "q_opt"}
    obs = jnp.asarray(rng.normal(size=(N, 3)), jnp.float32)
    if routine == "ddpg_actor":
        space = parts.box(rng)
        pol, q = parts.tanh_policy(rng, space), parts.mlp(rng, 5, 1)
        po = parts.opt(pol)
        call = lambda: ddpg.ddpg_update_actor(pol, po, q, obs)  # noqa: E731
        return call, dict(policy=pol, policy_opt=po, q=q), {"policy", "policy_opt"}
    if routine == "sac_actor":
        space = parts.box(rng)
        pol, q = parts.gaussian_tanh_policy(rng, space), parts.double_q(rng, 5)
        po = parts.opt(pol)
        call = lambda: sac.sac_update_actor(pol, po, q, key, obs, 0.2)  # noqa: E731
        return call, dict(policy=pol, policy_opt=po, q=q), {"policy", "policy_opt"}
    if routine == "entropy":
        space = parts.box(rng)
        pol = parts.gaussian_tanh_policy(rng, space)

        class E:
            action_space = space

        ec = sac.EntropyControl(E(), 0.2, True, 1e-2)
        call = lambda: ec.update(pol, obs, key)  # noqa: E731
        return call, dict(alpha=ec._alpha, alpha_opt=ec.optimizer, policy=pol), \
            {"alpha", "alpha_opt"}
    if routine in ("td7_critic", "td7_actor", "sale"):
        from flax import nnx
        st, space = parts.td7_state(rng)
        fixed, fixed_t = nnx.clone(st.embedding), nnx.clone(st.embedding)
        parts.rescale(fixed, 1.3)
        parts.rescale(fixed_t, 0.7)
        critic_t = nnx.clone(st.critic)
        parts.rescale(critic_t, 0.8)
        batch = parts.flat_batch(rng, N)
        objs = dict(embedding=st.embedding, embedding_opt=st.embedding_optimizer,
                    fixed=fixed, fixed_target=fixed_t, actor=st.actor,
                    actor_opt=st.actor_optimizer, critic=st.critic,
                    critic_opt=st.critic_optimizer, critic_target=critic_t)
        if routine == "td7_critic":
            na = jnp.asarray(rng.normal(size=(N, 2)), jnp.float32)
            call = lambda: td7.td7_update_critic(  # noqa: E731
                fixed, fixed_t, st.critic, critic_t, st.critic_optimizer, 0.9,
                batch.observation, batch.action, batch.next_observation, na,
                batch.reward, batch.termination, 1.0, -50.0, 50.0)
            return call, objs, {"critic", "critic_opt"}
        if routine == "td7_actor":
            from rl_blox.blox.embedding.sale import DeterministicSALEPolicy
            pol = DeterministicSALEPolicy(fixed, st.actor)
            call = lambda: td7.td7_update_actor(pol, st.actor_optimizer, st.critic,  # noqa: E731
                                                batch.observation)
            return call, objs, {"actor", "actor_opt"}
        from rl_blox.blox.embedding.sale import update_sale
        call = lambda: update_sale(st.embedding, st.embedding_optimizer,  # noqa: E731
                                   batch.observation, batch.action,
                                   batch.next_observation)
        return call, objs, {"embedding", "embedding_opt"}
    if routine in ("encoder", "mrq_cp"):
        from flax import nnx
        st, space = parts.mrq_state(rng)
        pwe = st.policy_with_encoder
        enc_t = nnx.clone(pwe.encoder)
        parts.rescale(enc_t, 0.9)
        q_t = nnx.clone(st.q)
        parts.rescale(q_t, 0.8)
        objs = dict(encoder=pwe.encoder, encoder_opt=st.encoder_optimizer,
                    encoder_target=enc_t, policy=pwe.policy,
                    policy_opt=st.policy_optimizer, q=st.q, q_opt=st.q_optimizer,
                    q_target=q_t)
        if routine == "encoder":
            from rl_blox.blox.embedding.model_based_encoder import (
                update_model_based_encoder,
            )
            delay, bs, h = 2, 3, 2
            batches = parts.sub_batch(rng, delay * bs, h)
            call = lambda: update_model_based_encoder(  # noqa: E731
                pwe.encoder, enc_t, st.encoder_optimizer, st.the_bins, h, 1.0, 0.1,
                0.1, delay, bs, True, batches, True)
            return call, objs, {"encoder", "encoder_opt"}
        from rl_blox.algorithm.mrq import update_critic_and_policy
        h = 2
        batch = parts.sub_batch(rng, N, h, reduced=True)
        na = jnp.asarray(rng.normal(size=(N, 2)), jnp.float32)
        call = lambda: update_critic_and_policy(  # noqa: E731
            st.q, q_t, st.q_optimizer, pwe.policy, st.policy_optimizer, pwe.encoder,
            enc_t, 0.9, 1e-5, na, batch, 1.2, 0.8)
        return call, objs, {"q", "q_opt", "policy", "policy_opt"}
    if routine == "ppo":
        from rl_blox.blox.function_approximator.policy_head import SoftmaxPolicy
        actor = SoftmaxPolicy(parts.mlp(rng, 3, 3))
        critic = parts.mlp(rng, 3, 1)
        oa, oc = parts.opt(actor), parts.opt(critic)
        T = 4
        n = 2 * T
        ob = jnp.asarray(rng.normal(size=(n, 3)), jnp.float32)
        ac = jnp.asarray(rng.integers(0, 3, size=n))
        rw = jnp.asarray(rng.normal(size=n), jnp.float32)
        tm = jnp.asarray(rng.integers(0, 2, size=n))
        nv = jnp.asarray(rng.normal(size=n), jnp.float32)
        import inspect
        kw = {}
        if "n_envs" in inspect.signature(
                getattr(ppo.update_ppo, "__wrapped__", ppo.update_ppo)).parameters:
            kw["n_envs"] = 2
        call = lambda: ppo.update_ppo(actor, critic, oa, oc, ob, ac, rw, tm, nv,  # noqa: E731
                                      epochs=2, **kw)
        return call, dict(actor=actor, actor_opt=oa, critic=critic, critic_opt=oc), \
            {"actor", "actor_opt", "critic", "critic_opt"}
    if routine in ("a2c_policy", "value_fn", "reinforce_policy", "ac_policy"):
        from vf.props.c12 import mk_actions, mk_policy
        disc = bool(rng.integers(2))
        pol = mk_policy(rng, disc)
        vf = parts.mlp(rng, 3, 1)
        po, vo = parts.opt(pol), parts.opt(vf)
        act = mk_actions(rng, N, disc)
        ret = jnp.asarray(rng.normal(size=N), jnp.float32)
        gd = jnp.asarray(0.9 ** rng.integers(0, 4, size=N), jnp.float32)
        nobs = jnp.asarray(rng.normal(size=(N, 3)), jnp.float32)
        objs = dict(policy=pol, policy_opt=po, value_function=vf, value_opt=vo)
        if routine == "a2c_policy":
            call = lambda: a2c.train_policy_a2c(pol, po, 2, obs, act, ret)  # noqa: E731
            return call, objs, {"policy", "policy_opt"}
        if routine == "value_fn":
            call = lambda: reinforce.train_value_function(vf, vo, 2, obs, ret)  # noqa: E731
            return call, objs, {"value_function", "value_opt"}
        if routine == "reinforce_policy":
            call = lambda: reinforce.train_policy_reinforce(  # noqa: E731
                pol, po, 2, vf, obs, act, ret, gd)
            return call, objs, {"policy", "policy_opt"}
        call = lambda: actor_critic.train_policy_actor_critic(  # noqa: E731
            pol, po, 2, vf, obs, act, nobs, ret, gd, 0.9)
        return call, objs, {"policy", "policy_opt"}
    if routine == "train_epoch":
        from rl_blox.blox import probabilistic_ensemble as pe
        from vf.props.c17 import make_ensemble
        E = int(rng.integers(1, 4))
        model = make_ensemble(rng, E, 3, 2)
        o = parts.opt(model)
        X = jnp.asarray(rng.normal(size=(10, 3)), jnp.float32)
        Y = jnp.asarray(rng.normal(size=(10, 2)), jnp.float32)
        idx = jnp.asarray(rng.integers(0, 10, size=(2, E, 3)))
        call = lambda: pe.train_epoch(model, o, X, Y, idx)  # noqa: E731
        return call, dict(model=model, model_opt=o), {"model", "model_opt"}
    if routine.startswith("mt_"):
        # multi-task networks (task embedding tables); rows pushed beyond the
        # maximum norm, as they are after some optimiser steps / a hard update
        from flax import nnx
        from rl_blox.blox.embedding import task_embedding as te

        def grow(mod):
            e = mod._task_embedding.embedding
            e.value = e.value * float(rng.choice([1.0, 4.0, 9.0]))

        n_tasks = int(rng.integers(2, 5))
        if routine in ("mt_ts_ddqn", "mt_ts_nature"):
            mk = lambda: te.MTMLPQNetwork(  # noqa: E731
                n_tasks, 3, 3, 3, [6], "tanh", nnx.Rngs(int(rng.integers(1 << 20))))
            q, qt = mk(), mk()
            grow(q)
            grow(qt)
            tid = int(rng.integers(n_tasks))
            q.task_id, qt.task_id = tid, tid
            o = parts.opt(q)
            batch = parts.flat_batch(rng, N, discrete=3)
            lossf = L.ddqn_loss if routine == "mt_ts_ddqn" else L.nature_dqn_loss
            call = lambda: dqn.train_step_with_loss(lossf, o, q, qt, batch, 0.9)  # noqa: E731
            return call, dict(q=q, q_opt=o, q_target=qt), {"q", "q_opt"}
        import gymnasium as gym

        space = parts.box(rng)

        class E:
            observation_space = gym.spaces.Box(-np.inf, np.inf, (3,), np.float32)
            action_space = space

        st = te.create_mt_mrq_state(
            E(), n_tasks, task_embedding_dim=3, policy_hidden_nodes=[6],
            q_hidden_nodes=[6], encoder_n_bins=9, encoder_zs_dim=5,
            encoder_za_dim=4, encoder_zsa_dim=5, encoder_hidden_nodes=[6],
            policy_learning_rate=1e-2, q_learning_rate=1e-2,
            encoder_learning_rate=1e-2, seed=int(rng.integers(1 << 20)))
        pwe = st.policy_with_encoder
        enc_t = nnx.clone(pwe.encoder)
        parts.rescale(enc_t, 0.9)
        grow(pwe.encoder)
        grow(enc_t)
        q_t = nnx.clone(st.q)
        parts.rescale(q_t, 0.8)
        objs = dict(encoder=pwe.encoder, encoder_opt=st.encoder_optimizer,
                    encoder_target=enc_t, policy=pwe.policy,
                    policy_opt=st.policy_optimizer, q=st.q, q_opt=st.q_optimizer,
                    q_target=q_t)
        if routine == "mt_encoder":
            from rl_blox.blox.embedding.model_based_encoder import (
                update_model_based_encoder,
            )
            delay, bs, h = 2, 3, 2
            batches = parts.sub_batch(rng, delay * bs, h)
            call = lambda: update_model_based_encoder(  # noqa: E731
                pwe.encoder, enc_t, st.encoder_optimizer, st.the_bins, h, 1.0, 0.1,
                0.1, delay, bs, True, batches, True)
            return call, objs, {"encoder", "encoder_opt"}
        from rl_blox.algorithm.mrq import update_critic_and_policy
        batch = parts.sub_batch(rng, N, 2, reduced=True)
        na = jnp.asarray(rng.normal(size=(N, 2)), jnp.float32)
        call = lambda: update_critic_and_policy(  # noqa: E731
            st.q, q_t, st.q_optimizer, pwe.policy, st.policy_optimizer, pwe.encoder,
            enc_t, 0.9, 1e-5, na, batch, 1.2, 0.8)
        return call, objs, {"q", "q_opt", "policy", "policy_opt"}
    if routine in ("train_ensemble", "pets_model_update"):
        from rl_blox.algorithm import pets
        from rl_blox.blox import probabilistic_ensemble as pe
        from vf.props.c17 import make_ensemble
        E = int(rng.integers(1, 4))
        bs = int(rng.choice([1, 2, 4, 8]))
        # data-set sizes whose bootstrapped part is / is not a multiple of bs
        nb = bs * int(rng.integers(1, 5)) + int(rng.choice([0, 0, 1]) if bs > 1 else 0)
        train_size = float(rng.choice([0.5, 1.0]))
        n = int(np.ceil(nb / train_size))
        while int(train_size * n) != nb:
            n += 1
        model = make_ensemble(rng, E, 5, 3)
        o = parts.opt(model)
        X = jnp.asarray(rng.normal(size=(n, 5)), jnp.float32)
        Y = jnp.asarray(rng.normal(size=(n, 3)), jnp.float32)
        if routine == "train_ensemble":
            call = lambda: pe.train_ensemble(model, o, train_size, X, Y, 2, bs, key)  # noqa: E731
        else:
            st = pe.EnsembleTrainState(model=model, optimizer=o,
                                       train_size=train_size, batch_size=bs)
            call = lambda: pets.update_dynamics_model(  # noqa: E731
                st, X[:, :3], X[:, 3:], X[:, :3] + Y, key, 2)
        return call, dict(model=model, model_opt=o), {"model", "model_opt"}
    if routine in ("soft", "hard"):
        from rl_blox.blox.target_net import (
            hard_target_net_update, soft_target_net_update,
        )
        net, tgt = parts.double_q(rng, 5), parts.double_q(rng, 5)
        if routine == "soft":
            # far: the documented limit tau = 1 (hard replacement), int or float
            tau = (1 if rng.random() < 0.5 else 1.0) if far else \
                float(rng.choice([0.005, 0.3]))
            call = lambda: soft_target_net_update(net, tgt, tau)  # noqa: E731
        else:
            call = lambda: hard_target_net_update(net, tgt)  # noqa: E731
        return call, dict(net=net, target=tgt), {"target"}
    raise KeyError(routine)


def run_direct(case):
    res = Result()
    rng = np.random.default_rng(case["seed"])
    routine = case["routine"]
    ok, built = guarded(res, f"C05/raises/build/{routine}", build, routine, rng,
                        case.get("far", False), case.get("tiny", False))
    if not ok:
        return res
    call, objs, trainees = built
    # a second, independently created agent of the same kind: its components
    # are bystanders of the first agent's update (no state shared through
    # default arguments, class attributes or module-level caches)
    ok, sib = guarded(res, f"C05/raises/build/{routine}", build, routine,
                      np.random.default_rng(case["seed"] + 17), case.get("far", False),
                      case.get("tiny", False))
    if not ok:
        return res
    objs = dict(objs)
    for n, o in sib[1].items():
        objs["other_agent:" + n] = o
    before = {n: parts.digest(o) for n, o in objs.items()}
    ok, _ = guarded(res, f"C05/raises/{routine}", call)
    if not ok:
        return res
    after = {n: parts.digest(o) for n, o in objs.items()}
    res.see("direct_routines_checked")
    bystanders = 0
    for n in objs:
        if n in trainees:
            continue
        bystanders += 1
        res.see("bystanders_bitwise_checked")
        if before[n] != after[n]:
            res.violation(f"C05/bystander_changed/{routine}",
                          f"{routine} changed '{n}', which it is not documented to "
                          f"train (trainees: {sorted(trainees)})")
            return res
    changed = [n for n in trainees if before[n] != after[n]]
    main = [n for n in trainees if not n.endswith("_opt")]
    if not all(n in changed for n in main):
        res.violation(f"C05/trainee_unchanged/{routine}",
                      f"{routine} left {sorted(set(main) - set(changed))} unchanged "
                      f"(random batch, non-degenerate parameters)")
        return res
    res.see("trainee_changed_checks")
    if case.get("tiny"):
        res.see("tiny_gradient_updates_checked")
    res.nontrivial = bystanders >= 1
    res.state((routine,))
    return res


def run_nochange(case):
    """Evaluating a loss or acting changes nothing."""
    res = Result()
    import jax
    import jax.numpy as jnp

    from rl_blox.algorithm.ddpg import make_sample_actions
    from rl_blox.algorithm.sac import sac_actor_loss
    from rl_blox.algorithm.td3 import make_sample_target_actions
    from rl_blox.blox import losses as L
    from rl_blox.blox import q_policy

    rng = np.random.default_rng(case["seed"])
    N = 4
    key = jax.random.key(3)
    space = parts.box(rng)
    q, qt = parts.mlp(rng, 3, 3), parts.mlp(rng, 3, 3)
    dq, dqt = parts.double_q(rng, 5), parts.double_q(rng, 5)
    cq, cqt = parts.mlp(rng, 5, 1), parts.mlp(rng, 5, 1)
    pol, gpol = parts.tanh_policy(rng, space), parts.gaussian_tanh_policy(rng, space)
    db, cb = parts.flat_batch(rng, N, discrete=3), parts.flat_batch(rng, N)
    na = jnp.asarray(rng.normal(size=(N, 2)), jnp.float32)
    objs = dict(q=q, qt=qt, dq=dq, dqt=dqt, cq=cq, cqt=cqt, pol=pol, gpol=gpol)
    calls = {
        "dqn_loss": lambda: L.dqn_loss(q, db, 0.9),
        "nature_dqn_loss": lambda: L.nature_dqn_loss(q, qt, db, 0.9),
        "ddqn_loss": lambda: L.ddqn_loss(q, qt, db, 0.9),
        "ddqn_per_loss": lambda: L.ddqn_per_loss(q, qt, db, 0.9, 1.0),
        "ddpg_loss": lambda: L.ddpg_loss(cq, cqt, pol, cb, 0.9),
        "td3_loss": lambda: L.td3_loss(dq, dqt, na, cb, 0.9),
        "td3_lap_loss": lambda: L.td3_lap_loss(dq, dqt, na, cb, 0.9, 1.0),
        "sac_loss": lambda: L.sac_loss(dq, dqt, gpol, key, 0.2, cb, 0.9),
        "dpg_loss": lambda: L.deterministic_policy_gradient_loss(cq, cb.observation, pol),
        "sac_actor_loss": lambda: sac_actor_loss(gpol, dq, 0.2, key, cb.observation),
        "act_explore": lambda: make_sample_actions(space, 0.2)(pol, cb.observation[0], key),
        "act_target": lambda: make_sample_target_actions(space, 0.2, 0.5)(
            pol, cb.observation, key),
        "act_sample": lambda: gpol.sample(cb.observation, key),
        "act_greedy": lambda: q_policy.greedy_policy(q, np.asarray(cb.observation[0])),
        "log_prob": lambda: gpol.log_probability(cb.observation, na),
    }
    # multi-task networks: acting / evaluating must not touch the embedding table
    from flax import nnx
    from rl_blox.blox.embedding import task_embedding as te
    mtq = te.MTMLPQNetwork(3, 3, 3, 3, [6], "tanh", nnx.Rngs(5))
    mtq._task_embedding.embedding.value = mtq._task_embedding.embedding.value * 6.0
    mtq.task_id = 1
    mtpol = te.create_model_based_mt_encoder_and_policy(
        3, 3, 3, 2, space, policy_hidden_nodes=[6], encoder_n_bins=9,
        encoder_zs_dim=5, encoder_za_dim=4, encoder_zsa_dim=5,
        encoder_hidden_nodes=[6], rngs=nnx.Rngs(6))
    mtpol.encoder._task_embedding.embedding.value = \
        mtpol.encoder._task_embedding.embedding.value * 6.0
    objs.update(mtq=mtq, mtpol=mtpol)
    calls.update({
        "mt_act_greedy": lambda: q_policy.greedy_policy(
            mtq, np.asarray(cb.observation[0])),
        "mt_q_forward": lambda: mtq(cb.observation),
        "mt_policy_call": lambda: mtpol(cb.observation),
        "mt_act_explore": lambda: make_sample_actions(space, 0.2)(
            mtpol, cb.observation[0], key),
        "mt_ddqn_loss": lambda: L.ddqn_loss(mtq, mtq, db, 0.9),
    })
    before = {n: parts.digest(o) for n, o in objs.items()}
    for name, call in calls.items():
        ok, _ = guarded(res, f"C05/raises/{name}", call)
        if not ok:
            return res
        after = {n: parts.digest(o) for n, o in objs.items()}
        bad = [n for n in objs if before[n] != after[n]]
        if bad:
            res.violation(f"C05/evaluation_changes_state/{name}",
                          f"evaluating {name} changed {bad}")
            return res
        res.see("no_change_calls_checked")
    res.nontrivial = True
    return res


# ------------------------------------------------------------------ in-loop
def run_loop(case):
    res = Result()
    import importlib

    from vf.algos import make_run
    from vf.loop import recording_call

    algo = case["algo"]
    ls = 8
    cfg = dict(script=[[5, "T"], [7, "U"], [3, "T"]], seed=case["seed"],
               total_timesteps=60, learning_starts=ls, batch_size=4,
               update_frequency=2, target_update_frequency=6, tau=0.3,
               policy_delay=2, target_network_delay=2, target_delay=3,
               use_checkpoints=False, logger=True, snap_on_log=True,
               low=[-1.0, 0.0], high=[1.0, 2.0], lr=3e-2, copy_leaves=False,
               options=case.get("options") or {})
    run = make_run(algo, cfg)
    tr = run.trace
    mod = importlib.import_module(run.patch_modules[0])
    patches = []
    inner = {
        "ddpg_update_actor": {"policy", "policy_optimizer"},
        "sac_update_actor": {"policy", "policy_optimizer"},
        "update_sale": {"embedding", "embedding_optimizer"},
        "td7_update_critic": {"critic", "critic_optimizer"},
        "td7_update_actor": {"actor", "actor_optimizer"},
    }
    for name in inner:
        if hasattr(mod, name):
            patches.append((mod, name, recording_call(tr, name, getattr(mod, name))))
    with rebound(patches):
        ok, _ = guarded(res, f"C05/raises/train_{algo}", run.call)
    if not ok:
        return res
    res.see("routines_traced")
    targets = {n for n in tr.objs if "target" in n}
    critic_set = {
        "dqn": {"q", "q_opt"}, "nature_dqn": {"q", "q_opt"}, "ddqn": {"q", "q_opt"},
        "per": {"q", "q_opt"}, "ddpg": {"q", "q_optimizer"},
        "td3": {"q", "q_optimizer"}, "td3_lap": {"q", "q_optimizer"},
        "sac": {"q", "q_optimizer"},
    }
    snaps = [e for e in tr.events if e.get("snap")]
    changed_total = set()
    for A, B in zip(snaps, snaps[1:]):
        diff = {n for n in A["snap"] if n in B["snap"] and A["snap"][n] != B["snap"][n]}
        if not diff:
            res.see("in_loop_segments_checked")
            continue
        changed_total |= diff
        kindA = (A["k"], A.get("name"), A.get("phase"))
        kindB = (B["k"], B.get("name"), B.get("phase"))
        allowed = set(targets)  # targets are C06's subject
        if kindA[0] == "call" and kindA[2] == "enter" and kindB[0] == "call" \
                and kindB[1] == kindA[1] and kindB[2] == "exit":
            allowed |= inner[kindA[1]]
            seg = f"inside {kindA[1]}"
        elif kindA[0] == "sample":
            seg = "between sample_batch and the next instrumented call"
            if algo in critic_set:
                allowed |= critic_set[algo]
            elif algo == "td7":
                allowed |= set()  # everything inside instrumented calls
            elif algo == "mrq":
                horizon_full = A["batch"]["observation"].ndim == 3
                allowed |= ({"encoder", "encoder_optimizer"} if horizon_full else
                            {"q", "q_optimizer", "policy", "policy_optimizer"})
        elif kindA[0] == "call" and kindA[2] == "exit":
            seg = f"after {kindA[1]}"
            if algo == "sac":
                allowed |= {"alpha", "alpha_optimizer"}
            if algo == "td7":
                # fixed embeddings are copied after the updates (C06)
                allowed |= set()
        else:
            seg = f"between {kindA[0]} and {kindB[0]}"
            if algo == "sac" and kindA[0] in ("call",):
                allowed |= {"alpha", "alpha_optimizer"}
        bad = diff - allowed
        if bad:
            res.violation(
                f"C05/loop/unattributed_change/{algo}",
                f"{sorted(bad)} changed {seg} (env step {B['n']}); allowed there: "
                f"{sorted(allowed - targets)}")
            return res
        res.see("in_loop_segments_checked")
    res.see("objects_that_learned", len(changed_total - targets))
    res.nontrivial = len(changed_total - targets) >= 2
    res.state((algo, "loop"))
    return res
