"""C17 - PETS model: ensemble consistency, bootstraps and plan evaluation."""

import numpy as np

from vf.core import Result, guarded
from vf.loop import rebound

ID = "C17"
RULE = (
    "ensembles of 1..4 Gaussian MLPs with 1..4 outputs, per-dimension different "
    "soft log-variance bounds, raw log-variances pushed to +-1e4; the four public "
    "prediction paths (__call__, aggregate, base_predict, base_distribution) on "
    "the same vector and batch inputs; bootstrap / train_epoch observed inside "
    "train_ensemble for data sets of 5..60 samples and batch sizes 1..16; "
    "gaussian_nll, evaluate_plans, ts_inf (variance forced tiny) and "
    "pendulum_reward against Gymnasium's Pendulum-v1. Non-trivial = case with "
    ">1 output dimension and >1 member (consistency) / with a bootstrap sample "
    "containing duplicates (training); distinct by (kind, shape, seed)"
)
REQUIRED = {
    "member_vs_joint_checks": 40, "vector_input_checks": 10, "bound_checks": 8,
    "aggregate_checks": 8, "epochs_observed": 5, "nll_checks": 5,
    "plan_value_checks": 5, "ts_inf_steps_checked": 10, "pendulum_rewards": 100,
    "epochs_with_poisoned_unused_rows": 2, "train_sets_beyond_16_bit_indices": 1,
}
TIMEOUT = {"quick": 1200, "thorough": 7000}
ASSUMPTIONS = ["float32 outputs compared with float64 references, rtol 1e-4"]


def gen_cases(tier, seed):
    rng = np.random.default_rng(seed + 1717)
    k = 1 if tier == "quick" else 30
    cases = []
    for E in (1, 2, 4):
        for out in (1, 2, 3, 4):
            for r in range(k):
                cases.append(dict(kind="consistency", E=E, out=out,
                                  seed=int(rng.integers(1 << 30)), cost=4))
    for i in range(6 * k):
        cases.append(dict(kind="train", seed=int(rng.integers(1 << 30)), cost=5))
        if i % 3 == 0:
            cases.append(dict(kind="train", large=1 + (i // 3) % 2,
                              seed=int(rng.integers(1 << 30)), cost=8))
        cases.append(dict(kind="nll", seed=int(rng.integers(1 << 30)), cost=0.5))
        cases.append(dict(kind="plans", seed=int(rng.integers(1 << 30)), cost=1))
    for i in range(3 * k):
        cases.append(dict(kind="ts_inf", seed=int(rng.integers(1 << 30)), cost=8))
        cases.append(dict(kind="pendulum", seed=int(rng.integers(1 << 30)), cost=2))
    return cases


def run_case(case):
    return globals()["run_" + case["kind"]](case)


def make_ensemble(rng, E, n_in, out, shared=True):
    import jax.numpy as jnp
    from flax import nnx

    from rl_blox.blox.probabilistic_ensemble import GaussianMLPEnsemble

    m = GaussianMLPEnsemble(E, shared, n_in, out, [6], "tanh",
                            nnx.Rngs(int(rng.integers(10000))))
    # learned soft bounds, different per output dimension (min < max)
    m.raw_min_log_var.value = jnp.asarray(rng.normal(size=out) - 1.0, jnp.float32)
    m.raw_max_log_var.value = jnp.asarray(rng.normal(size=out) + 1.0, jnp.float32)
    if rng.random() < 0.4:
        # learned bounds that ended up close together (narrow admissible band):
        # the order of the two soft clips matters most there
        m.raw_max_log_var.value = jnp.full((out,), -6.0, jnp.float32)
        m.raw_min_log_var.value = jnp.asarray(rng.uniform(1.0, 1.35, size=out),
                                              jnp.float32)
        if not np.all(np.asarray(m.min_log_var) < np.asarray(m.max_log_var)):
            m.raw_min_log_var.value = jnp.asarray(rng.normal(size=out) - 1.0,
                                                  jnp.float32)
    return m


def run_consistency(case):
    res = Result()
    import jax
    import jax.numpy as jnp

    rng = np.random.default_rng(case["seed"])
    E, out, n_in = case["E"], case["out"], 3
    shared = bool(rng.integers(2))
    ok, model = guarded(res, "C17/raises/constructor", make_ensemble, rng, E, n_in,
                        out, shared)
    if not ok:
        return res
    extreme = rng.random() < 0.5
    if extreme:
        # push raw log-variances to +-1e4 through the output bias
        def bump(b):
            b = np.array(b)
            sl = slice(out, None) if shared else slice(None)
            b[:, sl] = rng.choice([-1e4, 1e4], size=b[:, sl].shape)
            return jnp.asarray(b)
        layer = model.ensemble.output_layers[0 if shared else 1]
        layer.bias.value = bump(layer.bias.value)
    if rng.random() < 0.4:
        # outputs far from zero (unnormalised targets): member means around
        # +-1e3 that differ by ~0.1 between members
        layer = model.ensemble.output_layers[0]
        b = np.array(layer.bias.value)
        off = rng.choice([-1.0, 1.0], size=out) * rng.uniform(300, 3000, size=out)
        b[:, :out] += off[None, :] + 0.1 * rng.normal(size=(b.shape[0], out))
        layer.bias.value = jnp.asarray(b, jnp.float32)
        res.see("large_offset_models")
    lo = np.asarray(model.min_log_var, np.float64)
    hi = np.asarray(model.max_log_var, np.float64)
    n = int(rng.choice([1, 2, 5]))
    X = jnp.asarray(rng.normal(size=(n, n_in)), dtype=jnp.float32)
    ok, joint = guarded(res, "C17/raises/__call__", model, X)
    if not ok:
        return res
    means, lvs = np.asarray(joint[0], np.float64), np.asarray(joint[1], np.float64)
    if means.shape != (E, n, out) or lvs.shape != (E, n, out):
        res.violation("C17/joint_shape", f"joint pass shapes {means.shape}, "
                      f"{lvs.shape}; expected {(E, n, out)}")
        return res
    # soft bounds: max - softplus(max - x), then min + softplus(x - min); the
    # second step can lift a value by at most softplus(0) = log 2 above max
    slack = np.log(2.0) + 1e-3
    if not np.all(np.isfinite(lvs)) or np.any(lvs < lo - 1e-3) or \
            np.any(lvs > np.maximum(hi, lo) + slack):
        res.violation("C17/log_var_bounds", "predicted log-variances non-finite or "
                      "outside the learned soft bounds",
                      {"min": lo, "max": hi, "lv_min": lvs.min((0, 1)),
                       "lv_max": lvs.max((0, 1)), "extreme": extreme})
        return res
    res.see("bound_checks")
    # 3-D input path (one batch per member)
    X3 = jnp.broadcast_to(X, (E, n, n_in))
    ok, j3 = guarded(res, "C17/raises/__call__", model, X3)
    if ok and not (np.allclose(np.asarray(j3[0]), means, rtol=1e-4, atol=1e-5)
                   and np.allclose(np.asarray(j3[1]), lvs, rtol=1e-4, atol=1e-5)):
        res.violation("C17/individual_vs_shared_input", "per-member batches with "
                      "equal content give different predictions")
    # aggregate
    ok, agg = guarded(res, "C17/raises/aggregate", model.aggregate, X)
    if not ok:
        return res
    am, av = np.asarray(agg[0], np.float64), np.asarray(agg[1], np.float64)
    want_m = means.mean(0)
    want_v = np.exp(lvs).mean(0) + means.var(0)
    if not (np.allclose(am, want_m, rtol=1e-4, atol=1e-5)
            and np.allclose(av, want_v, rtol=1e-4, atol=1e-7)):
        res.violation("C17/aggregate", "aggregate != mean of means / mean variance "
                      "+ variance of means", {"got_var": av, "want_var": want_v})
        return res
    res.see("aggregate_checks")
    for i in range(E):
        for xin, tag, m_want, lv_want in (
                (X, "batch", means[i], lvs[i]),
                (X[0], "vector", means[i, 0], lvs[i, 0])):
            if tag == "vector":
                res.see("vector_input_checks")
            okp, bp = guarded(res, f"C17/base_predict/{tag}_raises",
                              model.base_predict, xin, i)
            if okp:
                bm, bv = np.asarray(bp[0], np.float64), np.asarray(bp[1], np.float64)
                if bm.shape != m_want.shape or bv.shape != m_want.shape:
                    res.violation(
                        f"C17/base_predict/{tag}_variance_shape",
                        f"base_predict({tag}) returns mean {bm.shape}, variance "
                        f"{bv.shape}; one variance per output dimension would be "
                        f"{m_want.shape}")
                elif not (np.allclose(bm, m_want, rtol=1e-4, atol=1e-5)
                          and np.allclose(bv, np.exp(lv_want), rtol=1e-3,
                                          atol=1e-12)):
                    res.violation(
                        f"C17/base_predict/{tag}_differs_from_joint",
                        f"member {i}: base_predict differs from slice {i} of the "
                        f"joint pass", {"var": bv, "joint_var": np.exp(lv_want)})
            okd, bd = guarded(res, f"C17/base_distribution/{tag}_raises",
                              model.base_distribution, xin, i)
            if okd:
                ok2, ms = guarded(res, f"C17/base_distribution/{tag}_raises",
                                  lambda: (bd.mean(), bd.stddev()))
                if ok2:
                    dm, ds = (np.asarray(ms[0], np.float64),
                              np.asarray(ms[1], np.float64))
                    if dm.shape != m_want.shape or ds.shape != m_want.shape:
                        res.violation(
                            f"C17/base_distribution/{tag}_shape",
                            f"base_distribution({tag}) has mean shape {dm.shape}, "
                            f"std shape {ds.shape}; expected {m_want.shape}")
                    elif not (np.allclose(dm, m_want, rtol=1e-4, atol=1e-5)
                              and np.allclose(ds, np.exp(0.5 * lv_want), rtol=1e-3,
                                              atol=1e-12)):
                        res.violation(
                            f"C17/base_distribution/{tag}_differs_from_joint",
                            f"member {i}: distribution std {ds.tolist()} differs "
                            f"from the joint pass {np.exp(0.5 * lv_want).tolist()}")
                    # what a sample of it looks like (ts_inf takes [0])
                    smp = np.asarray(bd.sample(seed=jax.random.key(0)))
                    if smp.shape != m_want.shape:
                        res.violation(
                            f"C17/base_distribution/{tag}_shape",
                            f"a sample has shape {smp.shape}, expected "
                            f"{m_want.shape}")
            res.see("member_vs_joint_checks")
    res.nontrivial = E > 1 and out > 1
    res.state(("cons", E, out, n, extreme))
    return res


def run_train(case):
    res = Result()
    import jax
    import jax.numpy as jnp
    import optax
    from flax import nnx

    from rl_blox.blox import probabilistic_ensemble as pe

    rng = np.random.default_rng(case["seed"])
    E, out = int(rng.integers(1, 5)), int(rng.integers(1, 4))
    model = make_ensemble(rng, E, 3, out)
    opt = nnx.Optimizer(model, optax.adam(1e-3), wrt=nnx.Param)
    n = int(rng.integers(5, 61))
    bs = int(rng.choice([1, 2, 4, 7, 16]))
    train_size = float(rng.choice([0.5, 0.7, 1.0]))
    if case.get("large"):
        # data sets beyond the 8 / 16-bit index ranges (round 9: a narrowed
        # index dtype inside train_epoch wraps only there)
        n = int(rng.choice([66000, 70000, 140000] if case["large"] == 1
                           else [300, 40000]))
        bs = int(rng.choice([64, 1000, 5000]))
        train_size = float(rng.choice([0.3, 0.5]))
    if int(train_size * n) < bs:
        bs = max(1, int(train_size * n))
    X = jnp.asarray(rng.normal(size=(n, 3)), jnp.float32)
    Y = jnp.asarray(rng.normal(size=(n, out)), jnp.float32)
    seen = {"boot": None, "epochs": []}
    orig_b, orig_t = pe.bootstrap, pe.train_epoch

    def bootstrap(*a, **kw):
        o = orig_b(*a, **kw)
        seen["boot"] = np.asarray(o)
        return o

    def train_epoch(model_, opt_, X_, Y_, indices):
        idx_ = np.asarray(indices)
        seen["epochs"].append(idx_)
        # rows that no member's batch of this epoch names are replaced by NaN:
        # the gather inside train_epoch is then observable through the loss
        # and the parameters (the index argument alone does not show it)
        unused = np.ones(X_.shape[0], bool)
        unused[idx_.ravel()[(idx_.ravel() >= 0) & (idx_.ravel() < X_.shape[0])]] = False
        seen["poisoned"] = seen.get("poisoned", 0) + int(unused.sum())
        Xp = jnp.where(jnp.asarray(unused)[:, None], jnp.nan, X_)
        Yp = jnp.where(jnp.asarray(unused)[:, None], jnp.nan, Y_)
        return orig_t(model_, opt_, Xp, Yp, indices)

    n_epochs = int(rng.integers(1, 4))
    with rebound([(pe, "bootstrap", bootstrap), (pe, "train_epoch", train_epoch)]):
        ok, loss = guarded(res, "C17/raises/train_ensemble", pe.train_ensemble,
                           model, opt, train_size, X, Y, n_epochs, bs,
                           jax.random.key(int(rng.integers(1 << 20))))
    if not ok:
        return res
    boot = seen["boot"]
    if boot is None or len(seen["epochs"]) != n_epochs:
        res.violation("C17/train/not_observed", f"bootstrap/train_epoch observed "
                      f"{boot is not None}/{len(seen['epochs'])} for {n_epochs} "
                      f"epochs")
        return res
    nb = int(train_size * n)
    if boot.shape != (E, nb) or boot.min() < 0 or boot.max() >= n:
        res.violation("C17/bootstrap/range", f"bootstrap sample shape {boot.shape} "
                      f"/ range [{boot.min()}, {boot.max()}] for n={n}")
        return res
    dup = False
    for ep, idx in enumerate(seen["epochs"]):
        if idx.ndim != 3 or idx.shape[1] != E:
            res.violation("C17/train/index_shape", f"epoch index tensor {idx.shape}")
            return res
        for e in range(E):
            used = np.bincount(idx[:, e, :].ravel(), minlength=n)
            have = np.bincount(boot[e], minlength=n)
            dup |= bool(np.any(have > 1))
            if np.any(used > have):
                bad = np.nonzero(used > have)[0]
                res.violation(
                    "C17/train/outside_bootstrap_sample",
                    f"epoch {ep}, member {e}: indices {bad.tolist()} used "
                    f"{used[bad].tolist()} times, present {have[bad].tolist()} "
                    f"times in the member's bootstrap sample")
                return res
            if used.sum() != (nb // bs) * bs:
                res.violation("C17/train/epoch_size", f"epoch used {used.sum()} "
                              f"indices, expected {(nb // bs) * bs}")
                return res
        res.see("epochs_observed")
    if not np.isfinite(float(loss)):
        res.violation("C17/train/loss_non_finite", f"loss {loss} (rows outside "
                      f"the epoch's index tensor were NaN: {seen.get('poisoned', 0)})")
    else:
        leaves = jax.tree_util.tree_leaves(nnx.state(model, nnx.Param))
        if not all(bool(np.all(np.isfinite(np.asarray(l)))) for l in leaves):
            res.violation("C17/train/params_non_finite", "parameters not finite "
                          "after training on finite rows (rows outside the "
                          "epoch's index tensor were NaN)")
    if seen.get("poisoned", 0):
        res.see("epochs_with_poisoned_unused_rows")
    if n > 65536:
        res.see("train_sets_beyond_16_bit_indices")
    res.nontrivial = dup
    res.state(("train", E, bs, nb))
    return res


def run_nll(case):
    res = Result()
    import jax.numpy as jnp

    from rl_blox.blox.probabilistic_ensemble import gaussian_nll

    rng = np.random.default_rng(case["seed"])
    shape = tuple(int(x) for x in rng.integers(1, 5, size=int(rng.integers(1, 4))))
    m = rng.normal(size=shape).astype(np.float32)
    lv = (rng.normal(size=shape) * rng.choice([0.1, 3.0])).astype(np.float32)
    y = rng.normal(size=shape).astype(np.float32)
    ok, v = guarded(res, "C17/raises/gaussian_nll", gaussian_nll, jnp.asarray(m),
                    jnp.asarray(lv), jnp.asarray(y))
    if not ok:
        return res
    m, lv, y = [a.astype(np.float64) for a in (m, lv, y)]
    ref = np.mean(0.5 * (m - y) ** 2 * np.exp(-lv)) + 0.5 * np.mean(lv)
    if not np.isclose(float(v), ref, rtol=1e-4, atol=1e-6):
        res.violation("C17/gaussian_nll", f"NLL {float(v)!r} vs closed form {ref!r}")
    res.see("nll_checks")
    res.nontrivial = True
    return res


def run_plans(case):
    res = Result()
    import jax.numpy as jnp

    from rl_blox.algorithm.pets import evaluate_plans

    rng = np.random.default_rng(case["seed"])
    S, P, Hn, A, O = [int(x) for x in (rng.integers(1, 5), rng.integers(1, 5),
                                       rng.integers(1, 5), rng.integers(1, 3),
                                       rng.integers(1, 4))]
    if case["seed"] % 2:
        P = max(P, 2)
    acts = rng.normal(size=(S, Hn, A)).astype(np.float32)
    traj = rng.normal(size=(S, P, Hn + 1, O)).astype(np.float32)
    a64, t64 = acts.astype(np.float64), traj.astype(np.float64)
    # vectorised reward models: depending on action and observation, on the
    # action only (control-effort penalty), on the observation only
    for name, (wa, wo) in (("mixed", (2.0, 1.0)), ("action_only", (1.0, 0.0)),
                           ("obs_only", (0.0, 1.0))):
        def reward_model(a, o, wa=wa, wo=wo):
            if wo == 0.0:
                return -wa * jnp.sum(a ** 2, axis=-1)
            if wa == 0.0:
                return jnp.sum(o ** 2, axis=-1)
            return jnp.sum(a, axis=-1) * wa + jnp.sum(o ** 2, axis=-1)

        def reward_ref(a, o, wa=wa, wo=wo):
            if wo == 0.0:
                return -wa * (a ** 2).sum()
            if wa == 0.0:
                return (o ** 2).sum()
            return a.sum() * wa + (o ** 2).sum()

        ok, v = guarded(res, "C17/raises/evaluate_plans", evaluate_plans,
                        jnp.asarray(acts), jnp.asarray(traj), reward_model)
        if not ok:
            return res
        ref = np.zeros(S)
        for s in range(S):
            tot = 0.0
            for p in range(P):
                for t in range(Hn):
                    tot += reward_ref(a64[s, t], t64[s, p, t])
            ref[s] = tot / P
        v = np.asarray(v, np.float64)
        if v.shape != (S,) or not np.allclose(v, ref, rtol=1e-4, atol=1e-5):
            res.violation("C17/evaluate_plans", f"plan value != particle mean of "
                          f"summed rewards ({name} reward model, {P} particles)",
                          {"got": v, "want": ref})
            return res
        res.see("plan_value_checks")
        if P > 1:
            res.see("plan_value_checks_several_particles")
    res.nontrivial = P > 1 and Hn > 1
    return res


def run_ts_inf(case):
    res = Result()
    import jax
    import jax.numpy as jnp

    from rl_blox.algorithm.pets import ts_inf

    rng = np.random.default_rng(case["seed"])
    E, O, A = int(rng.integers(1, 4)), int(rng.integers(1, 4)), int(rng.integers(1, 3))
    model = make_ensemble(rng, E, O + A, O)
    # force the predicted variance to its lower bound exp(-20)
    model.raw_min_log_var.value = jnp.full((O,), -60.0)
    lay = model.ensemble.output_layers[0]
    b = np.array(lay.bias.value)
    b[:, O:] = -1e4
    lay.bias.value = jnp.asarray(b)
    S, P, Hn = int(rng.integers(1, 4)), int(rng.integers(1, 4)), int(rng.integers(1, 4))
    keys = jax.random.split(jax.random.key(int(rng.integers(1 << 20))), (S, P))
    midx = jnp.asarray(rng.integers(0, E, size=P))
    acts = jnp.asarray(rng.normal(size=(S, Hn, A)), jnp.float32)
    obs0 = jnp.asarray(rng.normal(size=O), jnp.float32)
    ok, traj = guarded(res, "C17/raises/ts_inf", ts_inf, keys, midx, acts, obs0,
                       model)
    if not ok:
        return res
    traj = np.asarray(traj, np.float64)
    if traj.shape != (S, P, Hn + 1, O):
        res.violation("C17/ts_inf/shape", f"trajectories shape {traj.shape}, "
                      f"expected {(S, P, Hn + 1, O)}")
        return res
    for s in range(S):
        for p in range(P):
            o = np.asarray(obs0, np.float64)
            if not np.allclose(traj[s, p, 0], o, atol=1e-6):
                res.violation("C17/ts_inf/start", "trajectory does not start at "
                              "the given observation")
                return res
            for t in range(Hn):
                x = jnp.concatenate([jnp.asarray(traj[s, p, t], jnp.float32),
                                     acts[s, t]])[None]
                mean = np.asarray(model(x)[0], np.float64)[int(midx[p]), 0]
                want = traj[s, p, t] + mean
                if not np.allclose(traj[s, p, t + 1], want, atol=2e-3):
                    res.violation(
                        "C17/ts_inf/member_propagation",
                        f"particle {p} (member {int(midx[p])}) step {t}: next "
                        f"state {traj[s, p, t + 1].tolist()} != state + member "
                        f"mean {want.tolist()} (variance forced to ~0)")
                    return res
                res.see("ts_inf_steps_checked")
    # second phase: per-dimension spread.  Variances pinned to clearly
    # different levels per state dimension; the spread of the sampled steps of
    # many particles must follow each dimension's own standard deviation.
    if O > 1:
        model2 = make_ensemble(rng, 1, O + A, O)
        levels = np.linspace(-12.0, -2.0, O)
        # pin: max bound slightly above the level, raw log-var huge -> = max bound
        model2.raw_min_log_var.value = jnp.full((O,), -60.0)
        # max_log_var = -4 + 9*sigmoid(raw) cannot reach -12: pin with min instead
        lay2 = model2.ensemble.output_layers[0]
        b2 = np.array(lay2.bias.value)
        b2[:, O:] = levels  # raw log-variance itself (inside the bounds region)
        lay2.bias.value = jnp.asarray(b2)
        k2 = np.array(lay2.kernel.value)
        k2[:, :, O:] = 0.0  # log-variance independent of the input
        lay2.kernel.value = jnp.asarray(k2)
        model2.raw_max_log_var.value = jnp.full((O,), 60.0)
        P2 = 200
        keys2 = jax.random.split(jax.random.key(7), (1, P2))
        tr2 = np.asarray(ts_inf(keys2, jnp.zeros(P2, dtype=int), acts[:1, :1],
                                obs0, model2), np.float64)
        x = jnp.concatenate([obs0, acts[0, 0]])[None]
        jm, jl = model2(x)
        mean = np.asarray(jm, np.float64)[0, 0]
        sd = np.exp(0.5 * np.asarray(jl, np.float64)[0, 0])
        d = tr2[0, :, 1, :] - np.asarray(obs0, np.float64) - mean
        emp = d.std(axis=0)
        if np.any(emp > 1.5 * sd) or np.any(emp < sd / 1.5):
            res.violation(
                "C17/ts_inf/per_dimension_spread",
                f"spread of {P2} particles per state dimension {emp.tolist()} "
                f"does not follow the member's own standard deviations "
                f"{sd.tolist()}")
        res.see("ts_inf_spread_checks")
    res.nontrivial = E > 1 and O > 1
    res.state(("ts_inf", E, O))
    return res


def run_pendulum(case):
    res = Result()
    import gymnasium as gym
    import jax.numpy as jnp

    from rl_blox.algorithm.pets_reward_models import pendulum_reward

    rng = np.random.default_rng(case["seed"])
    env = gym.make("Pendulum-v1")
    env.reset(seed=0)
    acts, obss, rews = [], [], []
    for i in range(60):
        th = float(rng.choice([rng.uniform(-np.pi, np.pi), 0.0, np.pi, -np.pi,
                               3.0, -3.0]))
        thd = float(rng.uniform(-8, 8))
        u = float(rng.choice([rng.uniform(-2, 2), 2.0, -2.0, 5.0, -7.0, 0.0]))
        env.unwrapped.state = np.array([th, thd])
        _, r, _, _, _ = env.step(np.array([u], dtype=np.float32))
        acts.append([u])
        obss.append([np.cos(th), np.sin(th), thd])
        rews.append(r)
    ok, out = guarded(res, "C17/raises/pendulum_reward", pendulum_reward,
                      jnp.asarray(acts, jnp.float32), jnp.asarray(obss, jnp.float32))
    if not ok:
        return res
    out = np.asarray(out, np.float64)
    rews = np.asarray(rews)
    if out.shape != rews.shape or not np.allclose(out, rews, rtol=1e-3, atol=2e-3):
        i = int(np.argmax(np.abs(out - rews)))
        res.violation("C17/pendulum_reward", f"reward model {out[i]!r} vs "
                      f"Pendulum-v1 {rews[i]!r} for action {acts[i]}, obs {obss[i]}")
    res.see("pendulum_rewards", len(rews))
    res.nontrivial = True
    return res
