"""C12 - actor objectives have the documented value and gradient.

Independently written reference objectives evaluated on the same real modules;
values and gradients compared leaf-wise.
"""

import numpy as np

from vf.core import Result, guarded

ID = "C12"
RULE = (
    "policy-gradient pseudo-loss via reinforce_gradient / actor_critic_policy_"
    "gradient / a2c_policy_gradient with softmax and Gaussian heads, weights of "
    "both signs; ppo_loss at ratio 1, with all samples clipped on the favoured "
    "side, critics returning (N,) and (N,1), clip 0.05..0.5; DDPG / TD7-SALE / "
    "MR.Q deterministic policy losses; SAC actor loss (same key => same sample) "
    "and the sign of the first temperature step; N in {2,3,8} (N=1: same value "
    "or loud rejection). Non-trivial = case with weights/advantages of both "
    "signs (or N=1); distinct by (objective, shape, seed)"
)
REQUIRED = {
    "loss_values_checked": 30, "gradients_checked": 30, "ppo_clip_cases": 3,
    "ppo_value_term_checks": 4, "temperature_steps": 3,
}
TIMEOUT = {"quick": 1500, "thorough": 7000}
ASSUMPTIONS = ["references use the real modules' own log_probability / forward "
               "passes (their correctness is C13's subject)",
               "rtol 1e-4 / atol 1e-6 on float32 values and gradient leaves"]

KINDS = ["pg_reinforce", "pg_ac", "pg_a2c", "ppo", "dpg", "dpg_sale", "mrq_policy",
         "sac_actor", "temperature"]


def gen_cases(tier, seed):
    rng = np.random.default_rng(seed + 1212)
    k = 1 if tier == "quick" else 24
    cases = []
    for kind in KINDS:
        for N in (2, 3, 8, 1):
            for r in range(k):
                cases.append(dict(kind=kind, N=N, seed=int(rng.integers(1 << 30)),
                                  discrete=bool(rng.integers(2)),
                                  cost=4 if kind in ("ppo", "dpg_sale",
                                                     "mrq_policy") else 2))
    return cases


def run_case(case):
    res = Result()
    fn = globals()["run_" + case["kind"]]
    if case["N"] == 1:
        # batch size 1: same per-sample value or a loud rejection
        try:
            return fn(case, res)
        except Exception as e:  # noqa: BLE001
            import traceback
            if "/rl_blox/" in traceback.format_exc():
                res.see("n1_rejected_loudly")
                res.nontrivial = True
                return res
            raise
    return fn(case, res)


def leaves(tree):
    import jax
    return [np.asarray(x, np.float64) for x in jax.tree_util.tree_leaves(tree)]


def same_grads(res, key, got, want, what, rtol=1e-4):
    g, w = leaves(got), leaves(want)
    if len(g) != len(w):
        res.violation(key, f"{what}: gradient tree has {len(g)} leaves, reference "
                      f"{len(w)}")
        return False
    scale = max([np.max(np.abs(x)) for x in w] + [1e-8])
    for i, (a, b) in enumerate(zip(g, w)):
        if a.shape != b.shape or not np.allclose(a, b, rtol=rtol,
                                                 atol=1e-5 * scale + 1e-9):
            res.violation(key, f"{what}: gradient leaf {i} differs from the "
                          f"gradient of the documented objective",
                          {"got": a.ravel()[:6], "want": b.ravel()[:6]})
            return False
    res.see("gradients_checked")
    return True


def through_update(res, key, what, pol, update, want_loss, want_grads, lr=0.5):
    """The same objective as seen through the routine that trains the actor
    with it: on a copy of the actor with plain SGD, the reported loss is the
    documented value and the step is -lr times the documented gradient."""
    import optax
    from flax import nnx

    pc = nnx.clone(pol)
    opt = nnx.Optimizer(pc, optax.sgd(lr), wrt=nnx.Param)
    before = leaves(nnx.state(pc, nnx.Param))
    ok, val = guarded(res, f"{key}/raises", update, pc, opt)
    if not ok:
        return False
    if not same_value(res, f"{key}/value", val, want_loss,
                      f"{what} (loss reported by the update routine)"):
        return False
    after = leaves(nnx.state(pc, nnx.Param))
    step = [(b - a) / -lr for a, b in zip(before, after)]
    w = leaves(nnx.state(want_grads, nnx.Param)
               if not isinstance(want_grads, list) else want_grads)
    if len(step) != len(w):
        w = leaves(want_grads)
    scale = max([np.max(np.abs(x)) for x in w] + [1e-8])
    for i, (a, b) in enumerate(zip(step, w)):
        if a.shape != b.shape or not np.allclose(a, b, rtol=2e-3,
                                                 atol=2e-4 * scale + 1e-6):
            res.violation(f"{key}/step", f"{what}: the SGD step taken by the update "
                          f"routine is not -lr * gradient of the documented "
                          f"objective (leaf {i})",
                          {"got": a.ravel()[:6], "want": b.ravel()[:6]})
            return False
    res.see("update_routine_steps_checked")
    return True


def same_value(res, key, got, want, what, rtol=1e-4):
    got, want = float(got), float(want)
    res.see("loss_values_checked")
    if not np.isclose(got, want, rtol=rtol, atol=1e-6 * (1 + abs(want))):
        res.violation(key, f"{what}: value {got!r}, documented objective gives "
                      f"{want!r}")
        return False
    return True


def mk_policy(rng, discrete, d=3, A=2):
    from flax import nnx

    from rl_blox.blox.function_approximator import policy_head as ph
    from rl_blox.blox.function_approximator.gaussian_mlp import GaussianMLP
    from rl_blox.blox.function_approximator.mlp import MLP

    seed = int(rng.integers(10000))
    if discrete:
        net = MLP(d, 3, [6], "tanh", nnx.Rngs(seed))
        if seed % 2:
            # a confident policy: some of the actions taken are very unlikely
            import jax.numpy as jnp
            b = np.zeros(3, np.float32)
            b[seed % 3] = 20.0
            net.output_layer.bias.value = jnp.asarray(b)
        return ph.SoftmaxPolicy(net)
    return ph.GaussianPolicy(GaussianMLP(bool(seed % 2), d, A, [6], "tanh",
                                         nnx.Rngs(seed)))


def mk_actions(rng, N, discrete, A=2):
    import jax.numpy as jnp

    if discrete:
        return jnp.asarray(rng.integers(0, 3, size=N), dtype=jnp.int32)
    return jnp.asarray(rng.normal(size=(N, A)), dtype=jnp.float32)


def _pg(case, res, which):
    import jax
    import jax.numpy as jnp
    from flax import nnx

    from rl_blox.algorithm import a2c, actor_critic, reinforce
    from rl_blox.blox.function_approximator.mlp import MLP

    rng = np.random.default_rng(case["seed"])
    N = case["N"]
    pol = mk_policy(rng, case["discrete"])
    vf = MLP(3, 1, [6], "tanh", nnx.Rngs(int(rng.integers(1000))))
    obs = jnp.asarray(rng.normal(size=(N, 3)), dtype=jnp.float32)
    nobs = jnp.asarray(rng.normal(size=(N, 3)), dtype=jnp.float32)
    act = mk_actions(rng, N, case["discrete"])
    ret = jnp.asarray(rng.normal(size=N) * 3, dtype=jnp.float32)
    rew = jnp.asarray(rng.normal(size=N), dtype=jnp.float32)
    gd = jnp.asarray(0.9 ** rng.integers(0, 5, size=N), dtype=jnp.float32)
    gamma = 0.9
    v = np.asarray(vf(obs), np.float64).reshape(N)
    vn = np.asarray(vf(nobs), np.float64).reshape(N)
    if which == "reinforce":
        use_baseline = bool(rng.integers(2))
        w = (np.asarray(ret, np.float64) - (v if use_baseline else 0.0)) * \
            np.asarray(gd, np.float64)
        call = lambda: reinforce.reinforce_gradient(  # noqa: E731
            pol, vf if use_baseline else None, obs, act, ret, gd)
    elif which == "ac":
        w = np.asarray(gd, np.float64) * (np.asarray(rew, np.float64)
                                          + gamma * vn - v)
        call = lambda: actor_critic.actor_critic_policy_gradient(  # noqa: E731
            pol, vf, obs, act, nobs, rew, gd, gamma)
    else:
        w = np.asarray(ret, np.float64)
        call = lambda: a2c.a2c_policy_gradient(pol, obs, act, ret)  # noqa: E731
    ok, out = guarded(res, f"C12/raises/pg_{which}", call)
    if not ok:
        return res
    loss, grad = out
    wj = jnp.asarray(w, dtype=jnp.float32)

    def ref(p):
        if case["discrete"]:
            # log of the softmax entry, computed here (not by the head)
            lp = jnp.take_along_axis(jax.nn.log_softmax(p.logits(obs), axis=-1),
                                     act[:, None], axis=-1)[:, 0]
        else:
            lp = p.log_probability(obs, act)
        return -jnp.mean(jax.lax.stop_gradient(wj) * lp)

    rl, rg = nnx.value_and_grad(ref)(pol)
    same_value(res, f"C12/pg_{which}/value", loss, rl, f"{which} pseudo-loss")
    same_grads(res, f"C12/pg_{which}/gradient", grad, rg, f"{which} policy gradient")
    res.nontrivial = bool(np.any(w > 0) and np.any(w < 0)) or N == 1
    res.state((which, N, case["discrete"]))
    return res


def run_pg_reinforce(case, res):
    return _pg(case, res, "reinforce")


def run_pg_ac(case, res):
    return _pg(case, res, "ac")


def run_pg_a2c(case, res):
    return _pg(case, res, "a2c")


# ----------------------------------------------------------------- PPO
def run_ppo(case, res):
    import jax
    import jax.numpy as jnp
    from flax import nnx

    from rl_blox.algorithm.ppo import ppo_loss
    from rl_blox.blox.function_approximator.mlp import MLP

    rng = np.random.default_rng(case["seed"])
    N = case["N"]
    pol = mk_policy(rng, True)
    net = MLP(3, 1, [6], "tanh", nnx.Rngs(int(rng.integers(1000))))

    class Flat(nnx.Module):
        """critic returning shape (N,)"""

        def __init__(self, net):
            self.net = net

        def __call__(self, x):
            return self.net(x)[..., 0]

    obs = jnp.asarray(rng.normal(size=(N, 3)), dtype=jnp.float32)
    act = mk_actions(rng, N, True)
    adv = jnp.asarray(rng.normal(size=N) * 2, dtype=jnp.float32)
    ret = jnp.asarray(rng.normal(size=N) * 2, dtype=jnp.float32)
    clip = float(rng.choice([0.05, 0.2, 0.5]))
    logp = pol.log_probability(obs, act)
    for cname, critic in (("N1", net), ("N", Flat(net))):
        # (1) unchanged parameters: gradient of the unclipped surrogate
        ok, out = guarded(res, "C12/raises/ppo_loss", lambda: nnx.value_and_grad(
            ppo_loss, argnums=(0, 1))(pol, critic, logp, obs, act, adv, ret, clip))
        if not ok:
            return res
        loss, (ga, gc) = out

        def ref_total(p, c, old=logp, ad=adv):
            ratio = jnp.exp(p.log_probability(obs, act) - old)
            s1 = ratio * ad
            s2 = jnp.clip(ratio, 1 - clip, 1 + clip) * ad
            v = c(obs).reshape(-1)
            return (-jnp.mean(jnp.minimum(s1, s2)) + 0.5 * jnp.mean((ret - v) ** 2)
                    - 0.01 * jnp.mean(p.entropy(obs)))

        def ref_unclipped(p, old=logp):
            ratio = jnp.exp(p.log_probability(obs, act) - old)
            return -jnp.mean(ratio * adv) - 0.01 * jnp.mean(p.entropy(obs))

        def ref_value(c):
            return 0.5 * jnp.mean((ret - c(obs).reshape(-1)) ** 2)

        rl = ref_total(pol, critic)
        vkey = f"C12/ppo/value_term_broadcast" if cname == "N1" else "C12/ppo/value"
        same_value(res, vkey, loss, rl, f"ppo_loss (critic output "
                   f"{'(N,1)' if cname == 'N1' else '(N,)'})")
        same_grads(res, "C12/ppo/actor_gradient_at_ratio_1", ga,
                   nnx.grad(ref_unclipped)(pol), "ppo actor gradient at unchanged "
                   "parameters")
        gkey = ("C12/ppo/value_term_broadcast" if cname == "N1"
                else "C12/ppo/critic_gradient")
        same_grads(res, gkey, gc, nnx.grad(ref_value)(critic),
                   f"ppo critic gradient (critic output "
                   f"{'(N,1)' if cname == 'N1' else '(N,)'})")
        res.see("ppo_value_term_checks")
    # (2) all samples clipped on the favoured side -> only the entropy term
    sign = jnp.where(adv >= 0, 1.0, -1.0)
    old = logp - sign * jnp.log(1 + 2 * clip + 0.5)  # ratio far outside the clip
    ok, g2 = guarded(res, "C12/raises/ppo_loss", lambda: nnx.grad(
        ppo_loss, argnums=0)(pol, net, old, obs, act, adv, ret, clip))
    if not ok:
        return res

    def ent_only(p):
        return -0.01 * jnp.mean(p.entropy(obs))

    ratio = np.exp(np.asarray(logp - old, np.float64))
    a = np.asarray(adv, np.float64)
    favoured = np.all(((a >= 0) & (ratio > 1 + clip)) | ((a < 0) & (ratio < 1 - clip)))
    if favoured:
        same_grads(res, "C12/ppo/clipped_samples_contribute", g2,
                   nnx.grad(ent_only)(pol), "ppo actor gradient with every sample "
                   "clipped on the favoured side")
        res.see("ppo_clip_cases")
    res.nontrivial = bool(np.any(a > 0) and np.any(a < 0)) or N == 1
    res.state(("ppo", N, clip))
    del jax
    return res


# ----------------------------------------------------------------- DPG
def _box(rng, A=2):
    import gymnasium as gym

    low = (-1.0 - rng.random(A)).astype(np.float32)
    high = (0.5 + 2 * rng.random(A)).astype(np.float32)
    return gym.spaces.Box(low, high)


def run_dpg(case, res):
    import jax.numpy as jnp
    from flax import nnx

    from rl_blox.blox.function_approximator.mlp import MLP
    from rl_blox.blox.function_approximator.policy_head import (
        DeterministicTanhPolicy,
    )
    from rl_blox.blox.losses import deterministic_policy_gradient_loss

    rng = np.random.default_rng(case["seed"])
    N = case["N"]
    space = _box(rng)
    pol = DeterministicTanhPolicy(MLP(3, 2, [6], "tanh",
                                      nnx.Rngs(int(rng.integers(1000)))), space)
    q = MLP(5, 1, [6], "tanh", nnx.Rngs(int(rng.integers(1000))))
    obs = jnp.asarray(rng.normal(size=(N, 3)), dtype=jnp.float32)
    ok, out = guarded(res, "C12/raises/dpg", lambda: nnx.value_and_grad(
        deterministic_policy_gradient_loss, argnums=2)(q, obs, pol))
    if not ok:
        return res

    def ref(p, q):
        a = p(obs)
        return -jnp.mean(q(jnp.concatenate((obs, a), axis=-1)))

    rl, rg = nnx.value_and_grad(ref)(pol, q)
    same_value(res, "C12/dpg/value", out[0], rl, "deterministic policy gradient loss")
    same_grads(res, "C12/dpg/gradient", out[1], rg, "DPG actor gradient")
    from rl_blox.algorithm.ddpg import ddpg_update_actor
    through_update(res, "C12/dpg/update_routine", "ddpg_update_actor", pol,
                   lambda pc, opt: ddpg_update_actor(pc, opt, q, obs), rl, rg)
    res.nontrivial = True
    res.state(("dpg", N))
    return res


def run_dpg_sale(case, res):
    import gymnasium as gym
    import jax.numpy as jnp
    from flax import nnx

    from rl_blox.algorithm import td7

    rng = np.random.default_rng(case["seed"])
    N = case["N"]

    class E:
        observation_space = gym.spaces.Box(-np.inf, np.inf, (3,), np.float32)
        action_space = _box(rng)

    st = td7.create_td7_state(E(), n_embedding_dimensions=5,
                              state_embedding_hidden_nodes=[6],
                              state_action_embedding_hidden_nodes=[6],
                              policy_sa_encoding_nodes=5, policy_hidden_nodes=[6],
                              q_sa_encoding_nodes=5, q_hidden_nodes=[6],
                              seed=int(rng.integers(1000)))
    obs = jnp.asarray(rng.normal(size=(N, 3)), dtype=jnp.float32)
    emb, critic, actor = st.embedding, st.critic, st.actor
    ok, out = guarded(res, "C12/raises/dpg_sale", lambda: nnx.value_and_grad(
        td7.deterministic_policy_gradient_loss_sale, argnums=3)(
            emb, critic, obs, actor))
    if not ok:
        return res

    def ref(ac, emb, critic):
        zs = emb.state_embedding(obs)
        a = ac(obs, zs)
        zsa = emb.state_action_embedding(jnp.concatenate((zs, a), axis=-1))
        sa = jnp.concatenate((obs, a), axis=-1)
        qm = 0.5 * (critic.q1(sa, zsa=zsa, zs=zs) + critic.q2(sa, zsa=zsa, zs=zs))
        return -jnp.mean(qm)

    rl, rg = nnx.value_and_grad(ref)(actor, emb, critic)
    same_value(res, "C12/dpg_sale/value", out[0], rl, "TD7 actor loss (mean of the "
               "two critics)")
    same_grads(res, "C12/dpg_sale/gradient", out[1], rg, "TD7 actor gradient")
    res.nontrivial = True
    res.state(("dpg_sale", N))
    return res


def run_mrq_policy(case, res):
    import jax.numpy as jnp
    from flax import nnx

    from rl_blox.algorithm.mrq import mrq_policy_loss
    from vf.props.c07 import _mrq_parts

    rng = np.random.default_rng(case["seed"])
    N = case["N"]
    st = _mrq_parts(int(rng.integers(1000)))
    enc, pol, q = st.policy_with_encoder.encoder, st.policy_with_encoder.policy, st.q
    zs = jnp.asarray(rng.normal(size=(N, 6)), dtype=jnp.float32)
    w = float(rng.choice([0.0, 1e-5, 0.1]))
    ok, out = guarded(res, "C12/raises/mrq_policy_loss", lambda: nnx.value_and_grad(
        mrq_policy_loss, argnums=0, has_aux=True)(pol, q, enc, zs, w))
    if not ok:
        return res
    (loss, (dpg, reg)), grad = out

    def ref(p, q, enc):
        act_raw = p.policy_net(zs)
        a = p.scale_output(act_raw)
        zsa = enc.encode_zsa(zs, a)
        qv = jnp.minimum(q.q1(zsa), q.q2(zsa))
        return -jnp.mean(qv) + w * jnp.mean(act_raw ** 2)

    rl, rg = nnx.value_and_grad(ref)(pol, q, enc)
    same_value(res, "C12/mrq_policy/value", loss, rl, "MR.Q policy loss")
    same_value(res, "C12/mrq_policy/value", float(dpg) + w * float(reg), rl,
               "MR.Q policy loss components")
    same_grads(res, "C12/mrq_policy/gradient", grad, rg, "MR.Q policy gradient")
    res.nontrivial = True
    res.state(("mrq_policy", N))
    return res


# ----------------------------------------------------------------- SAC
def _diag_gaussian_logp(p, obs, a):
    """Closed-form log-density of the tanh-Gaussian head (documented as the
    diagonal Gaussian of its mean / std), independent of log_probability."""
    import jax.numpy as jnp

    mean, std = p(obs)
    return jnp.sum(-jnp.log(std) - 0.5 * jnp.log(2 * jnp.pi)
                   - 0.5 * ((a - mean) / std) ** 2, axis=-1)


def _flat_critic_class():
    from flax import nnx

    class FlatCritic(nnx.Module):
        """critic returning shape (N,)"""

        def __init__(self, net):
            self.net = net

        def __call__(self, x):
            return self.net(x)[..., 0]

    return FlatCritic


def _FlatCritic(net):
    return _flat_critic_class()(net)


def _sac_parts(rng):
    import gymnasium as gym

    from rl_blox.algorithm import sac

    class E:
        observation_space = gym.spaces.Box(-np.inf, np.inf, (3,), np.float32)
        action_space = _box(rng)

    st = sac.create_sac_state(E(), policy_hidden_nodes=[6], q_hidden_nodes=[6],
                              seed=int(rng.integers(1000)))
    return st, E


def run_sac_actor(case, res):
    import jax
    import jax.numpy as jnp
    from flax import nnx

    from rl_blox.algorithm.sac import sac_actor_loss

    rng = np.random.default_rng(case["seed"])
    N = case["N"]
    st, _ = _sac_parts(rng)
    pol, q = st.policy, st.q
    obs = jnp.asarray(rng.normal(size=(N, 3)), dtype=jnp.float32)
    key = jax.random.key(int(rng.integers(1 << 20)))
    alpha = float(rng.choice([0.0, 0.2, 1.5]))
    ok, out = guarded(res, "C12/raises/sac_actor_loss", lambda: nnx.value_and_grad(
        sac_actor_loss, argnums=0)(pol, q, alpha, key, obs))
    if not ok:
        return res

    def ref(p, q):
        a = p.sample(obs, key)
        lp = _diag_gaussian_logp(p, obs, a)
        sa = jnp.concatenate((obs, a), axis=-1)
        qv = jnp.minimum(q.q1(sa), q.q2(sa)).reshape(-1)
        return jnp.mean(alpha * lp - qv)

    rl, rg = nnx.value_and_grad(ref)(pol, q)
    same_value(res, "C12/sac_actor/value", out[0], rl, "SAC actor loss")
    same_grads(res, "C12/sac_actor/gradient", out[1], rg, "SAC actor gradient")
    from rl_blox.algorithm.sac import sac_update_actor
    through_update(res, "C12/sac_actor/update_routine", "sac_update_actor", pol,
                   lambda pc, opt: sac_update_actor(pc, opt, q, key, obs, alpha),
                   rl, rg)
    # the same objective with member critics that return shape (N,) not (N, 1)
    qf = type(q)(_FlatCritic(q.q1), _FlatCritic(q.q2))
    ok, outf = guarded(res, "C12/raises/sac_actor_loss", lambda: nnx.value_and_grad(
        sac_actor_loss, argnums=0)(pol, qf, alpha, key, obs))
    if not ok:
        return res
    same_value(res, "C12/sac_actor/value_flat_critic", outf[0], rl,
               "SAC actor loss (member critics of output shape (N,))")
    same_grads(res, "C12/sac_actor/gradient_flat_critic", outf[1], rg,
               "SAC actor gradient (member critics of output shape (N,))")
    res.see("flat_critic_checks")
    res.nontrivial = True
    res.state(("sac_actor", N))
    return res


def run_temperature(case, res):
    import jax
    import jax.numpy as jnp

    from rl_blox.algorithm import sac

    rng = np.random.default_rng(case["seed"])
    N = case["N"]
    st, E = _sac_parts(rng)
    ec = sac.EntropyControl(E(), 0.2, True, 1e-2)
    # move the target so that both signs occur
    ec.target_entropy = float(rng.choice([-6.0, -2.0, 0.0, 3.0, 8.0]))
    # temperatures far from the initial value 1 (long / continued runs)
    la0 = float(rng.choice([-15.0, -12.0, 11.0]) if N in (2, 8)
                else rng.choice([0.0, 0.0, -4.0, 3.0]))
    ec._alpha.log_alpha.value = jnp.full_like(ec._alpha.log_alpha.value, la0)
    res.see("temperature_log_alpha_far_from_zero" if abs(la0) > 10
            else "temperature_log_alpha_moderate")
    obs = jnp.asarray(rng.normal(size=(N, 3)), dtype=jnp.float32)
    key = jax.random.key(int(rng.integers(1 << 20)))
    a = st.policy.sample(obs, key)
    lp = np.asarray(_diag_gaussian_logp(st.policy, obs, a), np.float64)
    gap = float(np.mean(lp + ec.target_entropy))  # > 0: entropy below target
    before = float(np.asarray(ec._alpha()).reshape(-1)[0])
    pol_before = leaves(__import__("flax").nnx.state(st.policy))
    ok, _ = guarded(res, "C12/raises/entropy_update", ec.update, st.policy, obs, key)
    if not ok:
        return res
    after = float(np.asarray(ec._alpha()).reshape(-1)[0])
    res.see("temperature_steps")
    if abs(gap) > 1e-3:
        if (after > before) != (gap > 0):
            res.violation(
                "C12/temperature/direction",
                f"sampled entropy estimate {-float(np.mean(lp))!r}, target "
                f"{-ec.target_entropy if False else ec.target_entropy!r}: "
                f"mean(log pi + target) = {gap!r} but alpha went {before!r} -> "
                f"{after!r}")
    pol_after = leaves(__import__("flax").nnx.state(st.policy))
    if any(not np.array_equal(x, y) for x, y in zip(pol_before, pol_after)):
        res.violation("C12/temperature/changes_policy", "temperature update changed "
                      "the policy")
    if abs(float(np.asarray(ec.alpha_).reshape(-1)[0]) - after) > 1e-7:
        res.violation("C12/temperature/alpha_not_published", "EntropyControl.alpha_ "
                      "differs from the updated coefficient")
    res.nontrivial = True
    res.state(("temp", gap > 0))
    return res
