"""C10 - actions sent to the environment respect the action-space bounds."""

import numpy as np

from vf.core import Result, guarded
from vf.loop import rebound

ID = "C10"
RULE = (
    "products of make_sample_actions / make_sample_target_actions on tanh "
    "policies over boxes that are asymmetric, per-dimension different, tiny "
    "(1e-3) and large (1e4), noise 0..2, clip 0..1, batches and single "
    "observations, many keys; DeterministicTanhPolicy with network outputs up "
    "to +-1e30 and +-inf; cem_sample with means on the boundary and variances "
    "up to 1e6; in-loop: every action received by the recording environment in "
    "DDPG / TD3 / TD3+LAP / TD7 / MR.Q / PETS runs, CEM candidates exported from "
    "the rebound cem_sample. Non-trivial = case in which clipping was active "
    "for >=1 sample and inactive for >=1 sample (direct) / run with >=20 policy "
    "actions after warm-up (in-loop); distinct by (kind, bounds, seed)"
)
REQUIRED = {
    "exploration_actions_checked": 400, "target_actions_checked": 400,
    "noise_invariance_samples": 300, "tanh_extreme_outputs": 50,
    "env_actions_checked": 200, "cem_candidates_checked": 100,
    "samplers_of_one_process_history": 14,
}
TIMEOUT = {"quick": 1500, "thorough": 7000}
ASSUMPTIONS = ["bounds check exact for clipped samplers, <= 4 ulp of "
               "max(|low|,|high|) for tanh outputs and CEM candidates"]


def gen_cases(tier, seed):
    rng = np.random.default_rng(seed + 1010)
    k = 1 if tier == "quick" else 30
    cases = []
    for i in range(16 * k):
        cases.append(dict(kind="samplers", seed=int(rng.integers(1 << 30)), cost=3))
    for i in range(6 * k):
        cases.append(dict(kind="sampler_history", seed=int(rng.integers(1 << 30)),
                          cost=8))
    for i in range(12 * k):
        cases.append(dict(kind="cem", seed=int(rng.integers(1 << 30)), cost=1))
    for i in range(4 * k):
        cases.append(dict(kind="tanh", seed=int(rng.integers(1 << 30)), cost=1))
        cases.append(dict(kind="noise_stats", seed=int(rng.integers(1 << 30)),
                          cost=3))
    for algo in ("ddpg", "td3", "td3_lap", "td7", "mrq", "pets"):
        for r in range(2 * k):
            cases.append(dict(kind="loop", algo=algo, wrapped=bool(r % 2),
                              seed=int(rng.integers(1 << 20)),
                              cost={"mrq": 14, "pets": 12, "td7": 8}.get(algo, 4)))
    return cases


def run_case(case):
    return globals()["run_" + case["kind"]](case)


def rand_box(rng, A):
    import gymnasium as gym

    kind = rng.integers(4)
    if kind == 0:
        low = -np.ones(A)
        high = np.ones(A)
    elif kind == 1:  # asymmetric, per-dimension different
        low = rng.normal(size=A) * 3
        high = low + np.abs(rng.normal(size=A)) * 5 + 0.1
    elif kind == 2:  # tiny range
        low = rng.normal(size=A)
        high = low + 1e-3 * (1 + rng.random(A))
    else:  # large
        low = -1e4 * (1 + rng.random(A))
        high = 1e4 * (1 + rng.random(A))
    return gym.spaces.Box(low.astype(np.float32), high.astype(np.float32))


def make_policy(rng, space, gain=1.0):
    from flax import nnx

    from rl_blox.blox.function_approximator.mlp import MLP
    from rl_blox.blox.function_approximator.policy_head import (
        DeterministicTanhPolicy,
    )

    net = MLP(3, space.shape[0], [6], "tanh", nnx.Rngs(int(rng.integers(10000))))
    net.output_layer.kernel.value = net.output_layer.kernel.value * gain
    return DeterministicTanhPolicy(net, space)


def run_samplers(case):
    res = Result()
    import jax
    import jax.numpy as jnp

    from rl_blox.algorithm.ddpg import make_sample_actions
    from rl_blox.algorithm.td3 import make_sample_target_actions

    rng = np.random.default_rng(case["seed"])
    A = int(rng.integers(1, 4))
    space = rand_box(rng, A)
    noise = float(rng.choice([0.0, 0.1, 0.3, 1.0, 2.0]))
    clipf = float(rng.choice([0.0, 0.1, 0.5, 1.0]))
    return _samplers_on(res, rng, space, noise, clipf)


def _make_samplers(res, space, noise, clipf):
    from rl_blox.algorithm.ddpg import make_sample_actions
    from rl_blox.algorithm.td3 import make_sample_target_actions

    ok, f = guarded(res, "C10/raises/make_sample_actions", make_sample_actions,
                    space, noise)
    ok2, ft = guarded(res, "C10/raises/make_sample_target_actions",
                      make_sample_target_actions, space, noise, clipf)
    return (f, ft) if (ok and ok2) else None


def run_sampler_history(case):
    """Several samplers made in ONE process for boxes that share all but one of
    shape / half-range / centre / noise level / clip, all made first and used
    afterwards: each must respect its own box (round 9: a sampler memoised on
    an incomplete key)."""
    res = Result()
    import gymnasium as gym

    rng = np.random.default_rng(case["seed"])
    A = int(rng.integers(1, 4))
    base = rand_box(rng, A)
    lo, hi = base.low.astype(np.float64), base.high.astype(np.float64)
    half = 0.5 * (hi - lo)
    noise = float(rng.choice([0.1, 0.3, 1.0]))
    clipf = float(rng.choice([0.1, 0.5, 1.0]))

    def box(l, h):
        return gym.spaces.Box(l.astype(np.float32), h.astype(np.float32))

    shift = half * rng.choice([-3.0, -1.0, 0.5, 2.0, 3.0], size=A)
    fam = [(base, noise, clipf),
           (box(lo + shift, hi + shift), noise, clipf),          # other centre
           (box(lo - 0.5 * half, hi + 0.5 * half), noise, clipf),  # other range
           (base, float(noise * 0.5), clipf),                    # other noise
           (base, noise, float(clipf * 0.5)),                    # other clip
           (box(lo - 2 * shift, hi - 2 * shift), noise, clipf),
           (base, noise, clipf)]                                 # repeated
    order = rng.permutation(len(fam))
    made = {}
    for i in order:
        made[int(i)] = _make_samplers(res, *fam[int(i)])
        if made[int(i)] is None:
            return res
    nontrivial = False
    for i in rng.permutation(len(fam)):
        sp, nz, cf = fam[int(i)]
        n_viol = len(res.viol)
        _samplers_on(res, rng, sp, nz, cf, made[int(i)])
        if len(res.viol) > n_viol:
            return res
        nontrivial |= bool(res.nontrivial)
        res.see("samplers_of_one_process_history")
    res.nontrivial = nontrivial
    res.state(("sampler_history", A, noise, clipf))
    return res


def _samplers_on(res, rng, space, noise, clipf, made=None):
    import jax
    import jax.numpy as jnp

    low, high = space.low.astype(np.float64), space.high.astype(np.float64)
    scale = 0.5 * (space.high - space.low).astype(np.float64)
    pol = make_policy(rng, space, gain=float(rng.choice([0.3, 1.0, 5.0])))
    if made is None:
        made = _make_samplers(res, space, noise, clipf)
    if made is None:
        return res
    f, ft = made
    batched = bool(rng.integers(2))
    clipped_any = inside_any = False
    zs = {}
    for j in range(12):
        key = jax.random.key(int(rng.integers(1 << 20)))
        obs = jnp.asarray(rng.normal(size=(5, 3) if batched else (3,)), jnp.float32)
        base = np.asarray(pol(obs), np.float64)
        ok, a = guarded(res, "C10/raises/sample_actions", f, pol, obs, key)
        if not ok:
            return res
        a = np.asarray(a, np.float64)
        if a.shape != base.shape:
            res.violation("C10/exploration/shape", f"action shape {a.shape}")
            return res
        if np.any(a < low) or np.any(a > high) or not np.all(np.isfinite(a)):
            res.violation("C10/exploration/out_of_bounds",
                          f"exploration action {a.tolist()} outside "
                          f"[{low.tolist()}, {high.tolist()}]")
            return res
        res.see("exploration_actions_checked", int(a.size))
        inside = (a > low) & (a < high)
        clipped_any |= bool(np.any(~inside))
        inside_any |= bool(np.any(inside))
        if noise > 0:
            z = (a - base) / (noise * scale)
            zkey = jax.random.normal(key, base.shape)
            ulp = 4 * np.spacing(np.maximum(np.abs(space.low),
                                            np.abs(space.high))).astype(np.float64)
            tol = ulp / (noise * scale) + 1e-3
            bad = inside & (np.abs(z - np.asarray(zkey, np.float64)) > tol)
            if np.any(bad):
                res.violation(
                    "C10/exploration/not_policy_plus_scaled_noise",
                    "unclipped exploration action != policy action + noise * "
                    "half-range * standard normal(key)",
                    {"z": z[bad][:4], "z_key": np.asarray(zkey)[bad][:4],
                     "noise": noise, "scale": scale})
                return res
            res.see("noise_invariance_samples", int(np.sum(inside)))
            zs[j] = z
        ok, t = guarded(res, "C10/raises/sample_target_actions", ft, pol, obs, key)
        if not ok:
            return res
        t = np.asarray(t, np.float64)
        if np.any(t < low) or np.any(t > high) or not np.all(np.isfinite(t)):
            res.violation("C10/target/out_of_bounds",
                          f"smoothed target action {t.tolist()} outside the bounds")
            return res
        ulp = 4 * np.spacing(np.maximum(np.abs(space.low), np.abs(space.high))
                             ).astype(np.float64)
        if np.any(np.abs(t - base) > clipf * scale + ulp + 1e-7 * scale):
            res.violation(
                "C10/target/noise_exceeds_clip",
                f"|target - policy| = {np.abs(t - base).max()!r} exceeds "
                f"noise_clip * half-range = {(clipf * scale).tolist()}")
            return res
        if noise > 0:
            zkey = np.asarray(jax.random.normal(key, base.shape), np.float64)
            want = np.clip(base + np.clip(noise * scale * zkey, -clipf * scale,
                                          clipf * scale), low, high)
            if np.any(np.abs(t - want) > ulp + 1e-5 * scale):
                res.violation(
                    "C10/target/not_policy_plus_clipped_noise",
                    "target action != clip(policy + clip(noise*half-range*z))",
                    {"got": t.ravel()[:4], "want": want.ravel()[:4]})
                return res
        res.see("target_actions_checked", int(t.size))
    res.nontrivial = clipped_any and inside_any
    res.state(("samplers", int(space.shape[0]), noise, clipf, batched))
    return res


def run_noise_stats(case):
    res = Result()
    import jax
    import jax.numpy as jnp

    from rl_blox.algorithm.ddpg import make_sample_actions

    rng = np.random.default_rng(case["seed"])
    import gymnasium as gym
    space = gym.spaces.Box(np.array([-50.0, -1.0], np.float32),
                           np.array([50.0, 3.0], np.float32))
    noise = 0.01  # far inside the bounds: nothing is clipped
    pol = make_policy(rng, space, gain=0.1)
    f = make_sample_actions(space, noise)
    obs = jnp.asarray(rng.normal(size=3), jnp.float32)
    base = np.asarray(pol(obs), np.float64)
    scale = 0.5 * (space.high - space.low).astype(np.float64)
    n = 600
    zs = []
    for k in jax.random.split(jax.random.key(case["seed"] % 9973), n):
        a = np.asarray(f(pol, obs, k), np.float64)
        zs.append((a - base) / (noise * scale))
    z = np.asarray(zs)
    m, v = z.mean(0), z.var(0)
    if np.any(np.abs(m) > 6 / np.sqrt(n)) or np.any(np.abs(v - 1) > 6 * np.sqrt(2 / n)):
        res.violation("C10/exploration/noise_not_standard_normal",
                      f"standardised exploration noise over {n} keys has mean "
                      f"{m.tolist()}, variance {v.tolist()}")
    res.see("noise_invariance_samples", n)
    res.nontrivial = True
    return res


def run_tanh(case):
    res = Result()
    import jax.numpy as jnp
    from flax import nnx

    from rl_blox.blox.function_approximator.policy_head import (
        DeterministicTanhPolicy,
    )

    rng = np.random.default_rng(case["seed"])
    A = int(rng.integers(1, 4))
    space = rand_box(rng, A)

    class Const(nnx.Module):
        def __init__(self, v):
            self.v = nnx.Variable(jnp.asarray(v, jnp.float32))

        def __call__(self, x):
            return jnp.broadcast_to(self.v.value, x.shape[:-1] + self.v.value.shape)

    ulp = 4 * np.spacing(np.maximum(np.abs(space.low), np.abs(space.high))
                         ).astype(np.float64)
    for mag in (0.0, 1.0, 20.0, 1e4, 1e30, np.inf):
        for sign in (1.0, -1.0):
            v = np.full(A, sign * mag, dtype=np.float32)
            v = v * rng.choice([1.0, -1.0], size=A)
            pol = DeterministicTanhPolicy(Const(v), space)
            for shape in ((3,), (2, 3)):
                ok, a = guarded(res, "C10/raises/DeterministicTanhPolicy", pol,
                                jnp.zeros(shape, jnp.float32))
                if not ok:
                    return res
                a = np.asarray(a, np.float64)
                if not np.all(np.isfinite(a)) or np.any(a < space.low - ulp) or \
                        np.any(a > space.high + ulp):
                    res.violation(
                        "C10/tanh_policy/out_of_bounds",
                        f"network output {v.tolist()} mapped to {a.tolist()}, "
                        f"bounds [{space.low.tolist()}, {space.high.tolist()}]")
                    return res
                res.see("tanh_extreme_outputs")
    res.nontrivial = True
    return res


def run_cem(case):
    """Candidates of the cross-entropy planner (direct drive of cem_sample and
    of the sampler PETS builds from it), means on and next to the bounds."""
    res = Result()
    import jax
    import jax.numpy as jnp

    from rl_blox.algorithm.pets import _init_mpc_optimizer_cem
    from rl_blox.blox.cross_entropy_method import cem_sample

    rng = np.random.default_rng(case["seed"])
    A, Hn = int(rng.integers(1, 3)), int(rng.integers(1, 4))
    space = rand_box(rng, A)
    lb = np.tile(space.low, (Hn, 1))
    ub = np.tile(space.high, (Hn, 1))
    ulp = 4 * np.spacing(np.maximum(np.abs(lb), np.abs(ub))).astype(np.float64)
    n_pop = int(rng.integers(10, 40))
    sample_fn, _ = _init_mpc_optimizer_cem(space, Hn, n_pop)
    near = False
    for j in range(6):
        frac = rng.random((Hn, A))
        mode = rng.integers(4)
        if mode == 0:      # on a bound
            frac = rng.choice([0.0, 1.0], size=(Hn, A))
        elif mode == 1:    # a hair inside a bound
            frac = np.where(rng.random((Hn, A)) < 0.5, 1e-4, 1 - 1e-4)
        near |= mode in (0, 1)
        mean = np.clip((lb + frac * (ub - lb)).astype(np.float32), lb, ub)
        var = (10 ** rng.uniform(-8, 6, size=(Hn, A))).astype(np.float32)
        key = jax.random.key(int(rng.integers(1 << 20)))
        for name, f in (("cem_sample", lambda: cem_sample(
                jnp.asarray(mean), jnp.asarray(var), key, n_pop,
                jnp.asarray(lb), jnp.asarray(ub))),
                        ("pets_sampler", lambda: sample_fn(
                            jnp.asarray(mean), jnp.asarray(var), key))):
            ok, smp = guarded(res, f"C10/raises/{name}", f)
            if not ok:
                return res
            smp = np.asarray(smp, np.float64)
            if smp.shape != (n_pop, Hn, A) or not np.all(np.isfinite(smp)) or \
                    np.any(smp < lb - ulp) or np.any(smp > ub + ulp):
                over = np.maximum(lb - smp, smp - ub).max()
                res.violation(
                    "C10/cem/candidate_out_of_bounds",
                    f"{name}: candidate outside the bounds by {over!r} (mean "
                    f"{'on/next to' if mode in (0, 1) else 'inside'} the bound)",
                    {"mean": mean, "var": var, "lb": lb[0], "ub": ub[0]})
                return res
            res.see("cem_candidates_checked", n_pop)
    # the planner as PETS runs it: sample / update iterated while the search
    # distribution collapses onto a corner of a box far from zero
    off = float(rng.choice([-300.0, 50.0, 1000.0]))
    space2 = type(space)((space.low + off).astype(np.float32),
                         (space.low + off + rng.uniform(0.5, 2.0, A)).astype(np.float32))
    lb2, ub2 = np.tile(space2.low, (Hn, 1)), np.tile(space2.high, (Hn, 1))
    ulp2 = 4 * np.spacing(np.maximum(np.abs(lb2), np.abs(ub2))).astype(np.float64)
    sample2, update2 = _init_mpc_optimizer_cem(space2, Hn, n_pop)
    mean = jnp.asarray((lb2 + ub2) / 2, jnp.float32)
    var = jnp.asarray(((ub2 - lb2) / 2) ** 2, jnp.float32)
    sign = rng.choice([-1.0, 1.0], size=(Hn, A))
    for it in range(12):
        key = jax.random.key(int(rng.integers(1 << 20)))
        ok, smp = guarded(res, "C10/raises/pets_sampler", sample2, mean, var, key)
        if not ok:
            return res
        s64 = np.asarray(smp, np.float64)
        if not np.all(np.isfinite(s64)) or np.any(s64 < lb2 - ulp2) or \
                np.any(s64 > ub2 + ulp2):
            res.violation(
                "C10/cem/candidate_out_of_bounds",
                f"planner iteration {it} on the box [{space2.low.tolist()}, "
                f"{space2.high.tolist()}]: candidates non-finite or outside the "
                f"bounds (search variance {np.asarray(var).ravel()[:4].tolist()})")
            return res
        fit = jnp.asarray((s64 * sign).sum(axis=(1, 2)), jnp.float32)
        ok, mv = guarded(res, "C10/raises/cem_update", update2, smp, fit, mean, var)
        if not ok:
            return res
        mean, var = mv
        res.see("cem_planner_iterations")
    res.nontrivial = near
    res.state(("cem", A, Hn))
    return res


def run_loop(case):
    res = Result()
    import importlib

    import jax

    from vf.algos import make_run

    algo = case["algo"]
    rng = np.random.default_rng(case["seed"])
    low = (rng.normal(size=2) * 2).round(2)
    high = (low + np.abs(rng.normal(size=2)) * 3 + 0.2).round(2)
    cfg = dict(script=[[5, "T"], [9, "U"], [3, "T"]], seed=case["seed"],
               total_timesteps=int(rng.integers(60, 90)), learning_starts=8,
               batch_size=4, low=low.tolist(), high=high.tolist(), snapshots=False,
               logger=False, exploration_noise=float(rng.choice([0.0, 0.3, 1.0, 2.0])),
               # large smoothing noise against a small clip: the clip is active
               # for most samples, so a widened / swapped clip is visible
               noise_clip=float(rng.choice([0.0, 0.05, 0.1])),
               target_policy_noise=float(rng.choice([0.0, 0.5, 1.0])),
               policy_delay=2, target_delay=5)
    if case.get("wrapped"):
        # the routine sees a wrapper with its own, different action space
        olow = (rng.normal(size=2) * 3).round(2)
        cfg["outer_box"] = [olow.tolist(),
                            (olow + np.abs(rng.normal(size=2)) * 2 + 0.3).round(2).tolist()]
    run = make_run(algo, cfg)
    tr = run.trace
    patches = []
    cands = []
    if algo == "pets":
        mod = importlib.import_module("rl_blox.algorithm.pets")
        orig = mod.cem_sample

        def cem_sample(mean, var, step_key, n_population, lb, ub):
            out = orig(mean, var, step_key, n_population, lb, ub)
            jax.debug.callback(lambda s, l, u: cands.append(
                (np.array(s), np.array(l), np.array(u))), out, lb, ub)
            return out

        patches.append((mod, "cem_sample", cem_sample))
    else:
        # smoothed target actions: export the sampler's product from inside the
        # jitted function (td3.sample_target_actions is looked up by
        # make_sample_target_actions, which TD3+LAP, TD7 and MR.Q import)
        td3mod = importlib.import_module("rl_blox.algorithm.td3")
        orig_sta = td3mod.sample_target_actions

        def sample_target_actions(action_low, action_high, action_scale,
                                  exploration_noise, noise_clip, policy, obs, key):
            out = orig_sta(action_low, action_high, action_scale,
                           exploration_noise, noise_clip, policy, obs, key)
            base = policy(obs)
            jax.debug.callback(
                lambda a, b_, c=float(noise_clip): tr.ev(
                    "target_actions", a=np.array(a), base=np.array(b_), clip=c),
                out, base)
            return out

        patches.append((td3mod, "sample_target_actions", sample_target_actions))
    with rebound(patches):
        ok, _ = guarded(res, f"C10/raises/train_{algo}", run.call)
    if not ok:
        return res
    jax.effects_barrier()
    lo32, hi32 = run.env.action_space.low, run.env.action_space.high
    ulp = 4 * np.spacing(np.maximum(np.abs(lo32), np.abs(hi32))).astype(np.float64)
    tol = ulp if algo == "pets" else 0.0
    n_pol = 0
    k = 0
    act_kind = "outer_action" if case.get("wrapped") else "step"
    for e in tr.events:
        if e["k"] == act_kind:
            a = np.asarray(e["action"], np.float64)
            if a.shape != lo32.shape or np.any(a < lo32 - tol) or \
                    np.any(a > hi32 + tol) or not np.all(np.isfinite(a)):
                res.violation(f"C10/loop/action_out_of_bounds/{algo}",
                              f"step {k}: action {a.tolist()} passed to the "
                              f"environment, bounds [{lo32.tolist()}, "
                              f"{hi32.tolist()}]")
                return res
            if k >= cfg["learning_starts"]:
                n_pol += 1
            k += 1
            res.see("env_actions_checked")
        elif e["k"] == "target_actions":
            a = np.asarray(e["a"], np.float64)
            scale = 0.5 * (hi32 - lo32).astype(np.float64)
            if np.any(a < lo32) or np.any(a > hi32):
                res.violation(f"C10/loop/target_out_of_bounds/{algo}",
                              "smoothed target action outside the bounds")
                return res
            # the configured noise_clip, not the one the sampler was built with
            if np.any(np.abs(a - np.asarray(e["base"], np.float64))
                      > cfg["noise_clip"] * scale + ulp + 1e-6 * scale):
                res.violation(f"C10/loop/target_noise_exceeds_clip/{algo}",
                              "target smoothing noise exceeds noise_clip * "
                              "half-range")
                return res
            res.see("target_actions_checked", int(a.size))
    for s, l, u in cands:
        if np.any(s < l - ulp) or np.any(s > u + ulp):
            res.violation("C10/loop/cem_candidate_out_of_bounds/pets",
                          "CEM planner proposed a candidate outside the bounds")
            return res
        res.see("cem_candidates_checked", int(s.shape[0]))
    res.nontrivial = n_pol >= 20
    res.state((algo, "loop"))
    return res
