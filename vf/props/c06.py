"""C06 - target networks follow the Polyak / hard-copy law, only at update points.

(a) function level on generated parameter trees, (b) storage identity of the
targets a training routine creates itself, (c) in-loop: every change of a
target between two consecutive parameter snapshots of a real training run must
satisfy the law, and the set of iterations with a change must equal the
documented cadence.
"""

import numpy as np

from vf.core import Result, guarded
from vf.loop import rebound

ID = "C06"
RULE = (
    "(a) soft/hard updates on MLP, LayerNorm MLP, double-Q, SALE, encoder "
    "policy, tanh / Gaussian-tanh policies with tau in {0, 1, 0.005, 0.5, "
    "random}, parameters rescaled x{0.1,1,30}; (b) train_* called without "
    "targets for Nature-DQN, DDQN, PER, DDPG, TD3, TD3+LAP, SAC, TD7, MR.Q: "
    "returned targets must not share storage with online nets; (c) 80-160 step "
    "runs of the same nine routines with delays {1,2,3,5}, tau {0.005,0.3,1}, "
    "snapshots at every environment step, buffer call, logger call and inner "
    "routine boundary. Non-trivial = (a) tau strictly between 0 and 1, (c) run "
    "with >=5 visible target updates; distinct by (kind, architecture / routine, "
    "configuration, seed)"
)
REQUIRED = {
    "leaf_law_checks": 200, "online_unchanged_checks": 30, "identity_checks": 9,
    "in_loop_target_changes_checked": 60, "cadence_iterations_checked": 400,
    "routines_traced": 9, "td7_checkpoint_stability_checks": 30,
}
TIMEOUT = {"quick": 1500, "thorough": 7000}
ASSUMPTIONS = [
    "soft update within 3 ulp (float32) of the largest term per leaf",
    "an update of a target that equals its online net is invisible; sufficiency "
    "(changes at every update point) is demanded only where visible",
]
ALGOS = ["nature_dqn", "ddqn", "per", "ddpg", "td3", "td3_lap", "sac", "td7", "mrq"]
COST = {"mrq": 16, "td7": 10, "sac": 6}


def gen_cases(tier, seed):
    rng = np.random.default_rng(seed + 606)
    k = 1 if tier == "quick" else 16
    cases = []
    for arch in range(9):
        for r in range(2 * k):
            cases.append(dict(kind="fn", arch=arch, seed=int(rng.integers(1 << 30)),
                              cost=3))
    for algo in ALGOS:
        cases.append(dict(kind="identity", algo=algo,
                          seed=int(rng.integers(1 << 20)), cost=COST.get(algo, 3)))
        for r in range(2 * k):
            cases.append(dict(
                kind="loop", algo=algo, seed=int(rng.integers(1 << 20)),
                resume=bool(r % 2),
                delay=int(rng.choice([2, 3]) if r == 0 else rng.choice([1, 2, 3, 5])),
                tau=float(rng.choice([0.005, 0.3, 1.0])),
                gradient_steps=2 if (r % 2 and algo in ("ddpg", "td3", "td3_lap"))
                else int(rng.choice([1, 1, 2])),
                total=int(rng.integers(80, 130)), cost=3 * COST.get(algo, 3)))
            # every second run hands over target networks that differ from the
            # online ones, so that a copy at any moment is visible
            cases[-1]["distinct_targets"] = bool(r % 2 == 0)
        if algo in ("nature_dqn", "ddqn", "per"):
            # no warm-up: learning (and target syncs) wait for a full batch only
            cases.append(dict(
                kind="loop", algo=algo, seed=int(rng.integers(1 << 20)),
                resume=False, delay=int(rng.choice([1, 2])), tau=1.0,
                gradient_steps=1, total=int(rng.integers(40, 70)), ls=0,
                distinct_targets=True, cost=3 * COST.get(algo, 3)))
    for i in range(2 * k):
        # TD7's checkpoint copies: change only by the flagged copies
        cases.append(dict(kind="td7_checkpoint", idx=i,
                          seed=int(rng.integers(1 << 20)), cost=12))
    return cases


def run_case(case):
    return globals()["run_" + case["kind"]](case)


def run_td7_checkpoint(case):
    """In-loop monitor shared with C15 (vf.loop_td7); here only what concerns
    the checkpoint copies counts: they equal the live policy right after a
    flagged copy, stay bit-identical until the next one, and the returned
    networks are the checkpoint."""
    from vf.loop_td7 import run_td7_case

    r = run_td7_case(case)
    res = Result()
    res.obs.update({k: v for k, v in r.obs.items()
                    if "checkpoint" in k or "copies" in k or k == "td7_runs"})
    for v in r.viol:
        if any(w in v["key"] for w in ("checkpoint", "copy", "raises")):
            res.violation(v["key"].replace("C15/td7/", "C06/td7_checkpoint/")
                          .replace("C15/", "C06/"), v["msg"], v.get("witness"))
    res.nontrivial = r.obs.get("td7_copies", 0) > 0
    res.state(("td7_checkpoint", res.nontrivial))
    return res


# ------------------------------------------------------------------ (a)
def make_arch(arch, rng):
    from vf.props.c19 import make_module

    kind = ["mlp", "layernorm", "doubleq", "sale", "encoder_policy", "tanh_policy",
            "gaussian_tanh", "mt_q", "mt_encoder_policy"][arch]
    seed = int(rng.integers(1 << 30))
    a, _ = make_module(kind, np.random.default_rng(seed))
    b, _ = make_module(kind, np.random.default_rng(seed + 1))
    return kind, a, b


def leaves(m):
    import jax
    from flax import nnx

    return [np.asarray(x) for x in jax.tree_util.tree_leaves(nnx.state(m))]


def rescale(m, f, rng):
    import jax
    from flax import nnx

    st = nnx.state(m, nnx.Param)
    st = jax.tree.map(lambda v: v * f, st)
    nnx.update(m, st)


def law_ok(new, online, old, tau):
    ref = tau * online.astype(np.float64) + (1 - tau) * old.astype(np.float64)
    big = np.maximum(np.abs(tau * online.astype(np.float64)),
                     np.abs((1 - tau) * old.astype(np.float64)))
    tol = 3 * np.spacing(np.maximum(big, np.abs(ref)).astype(np.float32)
                         ).astype(np.float64) + 1e-45
    return np.all(np.abs(new.astype(np.float64) - ref) <= tol)


def run_fn(case):
    res = Result()
    from rl_blox.blox.target_net import hard_target_net_update, soft_target_net_update

    rng = np.random.default_rng(case["seed"])
    ok, made = guarded(res, "C06/raises/construct", make_arch, case["arch"], rng)
    if not ok:
        return res
    kind, net, target = made
    rescale(net, float(rng.choice([0.1, 1.0, 30.0])), rng)
    nontrivial = False
    for tau in (0.0, 1.0, 0.005, 0.5, float(np.round(rng.uniform(0.01, 0.99), 3))):
        on0, tg0 = leaves(net), leaves(target)
        ok, _ = guarded(res, "C06/raises/soft_target_net_update",
                        soft_target_net_update, net, target, tau)
        if not ok:
            return res
        on1, tg1 = leaves(net), leaves(target)
        if any(a.tobytes() != b.tobytes() for a, b in zip(on0, on1)):
            res.violation("C06/soft/online_changed", f"soft update (tau={tau}) "
                          f"changed the online network ({kind})")
            return res
        res.see("online_unchanged_checks")
        for i, (n, o, t) in enumerate(zip(tg1, on0, tg0)):
            if tau == 1.0 and n.tobytes() != o.tobytes():
                res.violation("C06/soft/tau1_not_hard_copy", f"tau=1: target leaf "
                              f"{i} differs from the online leaf ({kind})")
                return res
            if tau == 0.0 and n.tobytes() != t.tobytes():
                res.violation("C06/soft/tau0_not_noop", f"tau=0: target leaf {i} "
                              f"changed ({kind})")
                return res
            if not law_ok(n, o, t, tau):
                res.violation(
                    "C06/soft/polyak_law",
                    f"tau={tau}: target leaf {i} != tau*online + (1-tau)*target "
                    f"({kind})", {"new": n.ravel()[:4], "online": o.ravel()[:4],
                                  "old": t.ravel()[:4]})
                return res
            res.see("leaf_law_checks")
        nontrivial |= 0 < tau < 1
    on0 = leaves(net)
    if case["seed"] % 2:
        # a target that went wrong before (diverged run, placeholder): a hard
        # update replaces it whatever it holds
        import jax
        import jax.numpy as jnp
        from flax import nnx
        bad = iter([jnp.inf, jnp.nan, -jnp.inf] * 50)
        nnx.update(target, jax.tree.map(
            lambda v: v.at[(0,) * v.ndim].set(next(bad)),
            nnx.state(target, nnx.Param)))
        res.see("hard_updates_of_non_finite_targets")
    ok, _ = guarded(res, "C06/raises/hard_target_net_update", hard_target_net_update,
                    net, target)
    if not ok:
        return res
    if any(a.tobytes() != b.tobytes() for a, b in zip(leaves(target), on0)) or \
            any(a.tobytes() != b.tobytes() for a, b in zip(leaves(net), on0)):
        res.violation("C06/hard/not_equal_to_online", f"hard update: target != "
                      f"online or online changed ({kind})")
        return res
    # no storage shared after the update: changing online leaves target alone
    import jax
    from flax import nnx
    tg_before = leaves(target)
    nnx.update(net, jax.tree.map(lambda v: v + 1.0, nnx.state(net, nnx.Param)))
    if any(a.tobytes() != b.tobytes() for a, b in zip(leaves(target), tg_before)):
        res.violation("C06/hard/shares_storage", "target changed when the online "
                      "network was modified after a hard update")
    res.nontrivial = nontrivial
    res.state(("fn", kind))
    return res


# ------------------------------------------------------------------ (b)
TARGET_PAIRS = {
    "nature_dqn": [("q_net", "q_target_net")], "ddqn": [("q_net", "q_target_net")],
    "per": [("q_net", "q_target_net")],
    "ddpg": [("policy", "policy_target"), ("q", "q_target")],
    "td3": [("policy", "policy_target"), ("q", "q_target")],
    "td3_lap": [("policy", "policy_target"), ("q", "q_target")],
    "sac": [("q", "q_target")],
    "td7": [("critic", "critic_target"), ("actor", "actor_target"),
            ("embedding", "fixed_embedding"),
            ("embedding", "fixed_embedding_target"),
            ("fixed_embedding", "fixed_embedding_target")],
    "mrq": [("policy_with_encoder", "policy_with_encoder_target"),
            ("q", "q_target")],
}


def run_identity(case):
    res = Result()
    import jax
    from flax import nnx

    from vf.algos import make_run

    algo = case["algo"]
    cfg = dict(script=[[4, "T"], [6, "U"]], seed=case["seed"], total_timesteps=14,
               learning_starts=4, batch_size=3, update_frequency=2,
               target_update_frequency=3, targets="none", snapshots=False,
               logger=False, use_checkpoints=False, target_delay=3,
               low=[-1.0, 0.0], high=[1.0, 2.0])
    run = make_run(algo, cfg)
    ok, result = guarded(res, f"C06/raises/train_{algo}", run.call)
    if not ok:
        return res
    for on_name, tg_name in TARGET_PAIRS[algo]:
        if not hasattr(result, on_name) or not hasattr(result, tg_name):
            raise AttributeError(f"monitor unreachable: result of {algo} has no "
                                 f"{on_name}/{tg_name}")
        on, tg = getattr(result, on_name), getattr(result, tg_name)
        if on is tg:
            res.violation(f"C06/identity/same_object/{algo}",
                          f"{tg_name} is the same object as {on_name}")
            continue
        ids_on = {id(v) for _, v in nnx.iter_graph(on) if isinstance(v, nnx.Variable)}
        ids_tg = {id(v) for _, v in nnx.iter_graph(tg) if isinstance(v, nnx.Variable)}
        if ids_on & ids_tg:
            res.violation(f"C06/identity/shared_variable/{algo}",
                          f"{tg_name} shares {len(ids_on & ids_tg)} Variable "
                          f"object(s) with {on_name}")
            continue
        before = leaves(tg)
        nnx.update(on, jax.tree.map(lambda v: v + 1.0, nnx.state(on, nnx.Param)))
        if any(a.tobytes() != b.tobytes() for a, b in zip(before, leaves(tg))):
            res.violation(f"C06/identity/shared_storage/{algo}",
                          f"{tg_name} changed when {on_name} was modified")
        res.see("identity_checks")
    res.nontrivial = True
    res.state(("identity", algo))
    return res


# ------------------------------------------------------------------ (c)
def run_loop(case):
    res = Result()
    import importlib

    from vf.algos import make_run

    algo = case["algo"]
    d, tau = case["delay"], case["tau"]
    ls = case.get("ls", 11)  # 11: not a multiple of any delay used below
    # continued runs: the cadence is a function of the absolute step count
    G = int(np.random.default_rng(case["seed"]).choice([7, 13])) \
        if case.get("resume") else 0
    cfg = dict(script=[[5, "T"], [8, "U"], [3, "T"]], seed=case["seed"],
               total_timesteps=case["total"] + G, global_step=G,
               learning_starts=ls, batch_size=4,
               update_frequency=2, target_update_frequency=d * 2 + 1, tau=tau,
               policy_delay=d, target_network_delay=d, target_delay=d + 1,
               gradient_steps=case["gradient_steps"], use_checkpoints=False,
               logger=True, snap_on_log=True, low=[-1.0, 0.0], high=[1.0, 2.0],
               lr=3e-2, distinct_targets=bool(case.get("distinct_targets")))
    run = make_run(algo, cfg)
    tr = run.trace
    mod = importlib.import_module(run.patch_modules[0])
    patches = []
    from vf.loop import recording_call
    for name in ("ddpg_update_actor", "sac_update_actor"):
        if hasattr(mod, name):
            patches.append((mod, name, recording_call(tr, name, getattr(mod, name))))
    if algo == "td7":
        orig = mod._train_step

        def _train_step(*a, **kw):
            policy, policy_target = a[6], a[7]
            tr.objs.setdefault("fixed_embedding", policy.embedding)
            tr.objs.setdefault("fixed_embedding_target", policy_target.embedding)
            tr.ev("call", name="_train_step", phase="enter", snap=tr.snap())
            out = orig(*a, **kw)
            tr.ev("call", name="_train_step", phase="exit", snap=tr.snap())
            return out

        patches.append((mod, "_train_step", _train_step))
    with rebound(patches):
        ok, _ = guarded(res, f"C06/raises/train_{algo}", run.call)
    if not ok:
        return res
    res.see("routines_traced")
    res.see(f"traced_{algo}")
    # target -> (source, kind, which snapshot the source is read from)
    if algo in ("nature_dqn", "ddqn", "per"):
        law = {"q_target": ("q", "hard", "B")}
        def is_point(idx):
            # deliberately not a multiple of update_frequency (= 2)
            return idx > 4 and idx >= ls and idx % (d * 2 + 1) == 0
    elif algo == "ddpg":
        law = {"policy_target": ("policy", "soft", "B"), "q_target": ("q", "soft", "B")}
        def is_point(idx):
            return idx >= ls
    elif algo in ("td3", "td3_lap"):
        law = {"policy_target": ("policy", "soft", "B"), "q_target": ("q", "soft", "B")}
        def is_point(idx):
            return idx >= ls and idx % d == 0
    elif algo == "sac":
        law = {"q_target": ("q", "soft", "B")}
        def is_point(idx):
            return idx >= ls and idx % d == 0
    elif algo == "td7":
        law = {"actor_target": ("actor", "hard", "B"),
               "critic_target": ("critic", "hard", "B"),
               "fixed_embedding_target": ("fixed_embedding", "hard", "A"),
               "fixed_embedding": ("embedding", "hard", "B")}
        def is_point(idx):
            return idx >= ls and (idx - ls + 1) % (d + 1) == 0
    else:  # mrq
        # copied at the START of the iteration (before that iteration's training)
        law = {"encoder_target": ("encoder", "hard", "B", "A"),
               "policy_target": ("policy", "hard", "B", "A"),
               "q_target": ("q", "hard", "B", "A")}
        def is_point(idx):
            return idx >= ls and (idx - ls + 1) % (d + 1) == 0
    # a step event's snapshot is taken on entry, before the step is counted
    snaps = [(e["n"] - (1 if e["k"] == "step" else 0), e["k"], e.get("name"),
              e["snap"]) for e in tr.events if e.get("snap")]
    changed_iters = {t: set() for t in law}
    changed_segments = {t: {} for t in law}
    visible_points = {t: set() for t in law}
    n_changes = 0
    for (nA, kA, nameA, A), (nB, kB, nameB, B) in zip(snaps, snaps[1:]):
        for tgt, spec in law.items():
            src, kind, which = spec[:3]
            if tgt not in A or tgt not in B or A[tgt] == B[tgt]:
                continue
            # iteration index (absolute) = start + env steps executed so far - 1
            idx = G + nB - 1
            changed_iters[tgt].add(idx)
            changed_segments[tgt][idx] = changed_segments[tgt].get(idx, 0) + 1
            new = tr.leaves[B[tgt]]
            old = tr.leaves[A[tgt]]
            cands = [tr.leaves[(B if which == "B" else A)[src]]]
            if A[src] != B[src] and which == "B":
                # the update may legitimately precede that segment's training
                cands.append(tr.leaves[A[src]])
            t_eff = 1.0 if kind == "hard" else tau
            okl = False
            for on in cands:
                if all((n.tobytes() == o.tobytes()) if t_eff == 1.0
                       else law_ok(n, o, t, t_eff)
                       for n, o, t in zip(new, on, old)):
                    okl = True
                    break
            if not okl and case["gradient_steps"] > 1 and kind == "soft":
                # two compounded soft updates inside one segment: the second
                # online value is in B, the first lies between - accept if a
                # value x in [min,max] of the candidates explains each leaf
                okl = _compound_ok(new, old, cands, tau)
            if not okl:
                res.violation(
                    f"C06/loop/law/{algo}",
                    f"{tgt} changed in iteration {idx} (between '{kA}:{nameA}' "
                    f"and '{kB}:{nameB}') but not to "
                    f"{'the online network' if t_eff == 1.0 else f'tau*online+(1-tau)*target (tau={tau})'}",
                    {"new": new[0].ravel()[:4], "old": old[0].ravel()[:4],
                     "online": cands[0][0].ravel()[:4]})
                return res
            n_changes += 1
            res.see("in_loop_target_changes_checked")
    # cadence
    n_total = sum(1 for e in tr.events if e["k"] == "step")
    step_snaps = [e for e in tr.events if e["k"] == "step"]
    for tgt, spec in law.items():
        src, kind = spec[:2]
        which = spec[3] if len(spec) > 3 else spec[2]
        for idx in range(G, G + n_total):
            res.see("cadence_iterations_checked")
            if idx in changed_iters[tgt] and not is_point(idx):
                res.violation(
                    f"C06/loop/cadence/{algo}",
                    f"{tgt} changed in iteration {idx}, which is not a documented "
                    f"update point (delay {d}, learning_starts {ls})")
                return res
        # sufficiency where visible: at an update point at which the online net
        # (at the end of the iteration) differs from the target before it
        for idx in range(max(ls, G), G + n_total - 1):
            if not is_point(idx):
                continue
            sA, sB = step_snaps[idx - G]["snap"], step_snaps[idx - G + 1]["snap"]
            if tgt not in sA or src not in sB:
                continue
            src_dig = sB[src] if which == "B" else sA[src]
            if src_dig != sA[tgt] and sA[tgt] == sB[tgt] and (kind == "hard" or tau > 0):
                res.violation(
                    f"C06/loop/missed_update/{algo}",
                    f"{tgt} did not change in iteration {idx} although it is an "
                    f"update point and differs from {src}")
                return res
            if src_dig != sA[tgt]:
                visible_points[tgt].add(idx)
    res.see("visible_update_points", sum(len(v) for v in visible_points.values()))
    gs = case["gradient_steps"]
    if gs > 1 and algo in ("ddpg", "td3", "td3_lap") and tau > 0:
        # several gradient steps per environment step: the targets follow after
        # every one of them (each lies in its own snapshot segment)
        for tgt in law:
            for idx, cnt in changed_segments[tgt].items():
                if is_point(idx) and cnt != gs:
                    res.violation(
                        f"C06/loop/updates_per_iteration/{algo}",
                        f"{tgt} was updated {cnt} time(s) in iteration {idx} with "
                        f"gradient_steps={gs}")
                    return res
                res.see("multi_gradient_step_iterations_checked")
    res.nontrivial = n_changes >= 5
    res.state((algo, d, tau, G > 0))
    return res


def _compound_ok(new, old, cands, tau):
    """new = (1-tau)^2 old + tau(1-tau) x1 + tau x2 with x2 = cands[0] and x1
    unknown but between the candidates' values (loose check)."""
    x2 = cands[0]
    xa = cands[-1]
    for n, o, b, a in zip(new, old, x2, xa):
        lo = np.minimum(a, b).astype(np.float64)
        hi = np.maximum(a, b).astype(np.float64)
        base = (1 - tau) ** 2 * o.astype(np.float64) + tau * b.astype(np.float64)
        v1 = base + tau * (1 - tau) * lo
        v2 = base + tau * (1 - tau) * hi
        lo2, hi2 = np.minimum(v1, v2), np.maximum(v1, v2)
        slack = 1e-5 * (np.abs(n) + 1e-6) + 1e-7
        # online moved between the two updates: allow the full per-step range
        span = np.abs(hi - lo) * tau + slack
        if np.any(n < lo2 - span) or np.any(n > hi2 + span):
            return False
    return True
