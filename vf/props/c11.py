"""C11 - step budget, episode discipline and step accounting are exact.

Offline checker over the environment log of real training / rollout calls on
scripted environments that raise when stepped after an episode end; parameter
snapshots at every environment step decide the warm-up clause; recording task
selectors and a recomputation of D-UCB decide the scheduler clauses.
"""

import numpy as np

from vf.core import Result, guarded
from vf.loop import StepAfterEnd, rebound

ID = "C11"
RULE = (
    "step-loop routines (DQN family, DDPG, TD3(+LAP), SAC, TD7, MR.Q, PETS, "
    "tabular) x budgets {0,1,..}, starting counts {0, mid, = budget}, episode "
    "limits 1..4 reached before / at / after the budget, scripts with "
    "terminated and truncated ends, warm-up below / at / above the first "
    "episode end; episodic collectors (REINFORCE, actor-critic), rollout "
    "collectors (A2C, PPO), CMA-ES, generate_rollout; train_uts / train_smt / "
    "train_active_mt over DDPG/TD3/SAC with 1-5 tasks; DUCB and task selectors "
    "driven directly with random reward histories. Non-trivial = run stopped "
    "by the episode limit or mid-episode by the budget, or scheduler run with "
    ">=2 tasks visited; distinct = distinct configuration"
)
REQUIRED = {
    "calls_checked": 40, "stopped_by_episode_limit": 5, "stopped_by_budget": 5,
    "warmup_snapshots_checked": 100, "scheduler_runs": 4, "ducb_choices_checked": 200,
    "selector_protocol_checks": 8, "rollout_helper_runs": 2,
}
TIMEOUT = {"quick": 1500, "thorough": 7000}
ASSUMPTIONS = [
    "overshoot that the documentation grants (whole episodes for REINFORCE / "
    "actor-critic, whole rollouts for A2C / PPO) is allowed exactly as documented",
    "D-UCB: any maximiser accepted (ties), arms with zero discounted count are "
    "maximal; a final selection without feedback at the end of the budget is allowed",
]

LOOP = ["dqn", "nature_dqn", "ddqn", "per", "ddpg", "td3", "td3_lap", "sac", "td7",
        "mrq", "pets"]
TAB = ["q_learning", "sarsa", "double_q_learning", "monte_carlo", "dynaq"]
HAS_EP = {"nature_dqn", "ddqn", "per", "ddpg", "td3", "sac", "td7", "mrq"}
HAS_START = {"dqn", "nature_dqn", "ddqn", "per", "ddpg", "td3", "td3_lap", "sac",
             "td7", "mrq"}
WARMUP = {"nature_dqn", "ddqn", "per", "ddpg", "td3", "td3_lap", "sac", "td7",
          "mrq", "pets"}
COST = {"mrq": 14, "pets": 10, "td7": 8, "dqn": 6, "ppo": 7, "dynaq": 5, "sac": 4}


def make_script(rng, n=5):
    lens = [int(x) for x in rng.choice([1, 2, 3, 5, 8], size=n)]
    kinds = [str(k) for k in rng.choice(["T", "U"], size=n)]
    return [list(p) for p in zip(lens, kinds)]


def gen_cases(tier, seed):
    from vf.algos import random_options
    rng = np.random.default_rng(seed + 1111)
    cases = []
    reps = 1 if tier == "quick" else 20
    for r in range(reps):
        for algo in LOOP:
            variants = ["budget", "episodes", "zero", "start_mid", "prefilled"]
            if tier == "quick" and algo in ("mrq", "pets"):
                variants = (["episodes", "start_mid", "prefilled"] if algo == "mrq"
                            else ["budget"])
            for v in variants:
                script = make_script(rng)
                total = int(rng.integers(25, 50))
                c = dict(kind="loop", algo=algo, script=script, variant=v,
                         total_timesteps=total, global_step=0, total_episodes=None,
                         learning_starts=int(rng.choice(
                             [script[0][0], script[0][0] + 1, 6, 9, 60])),
                         seed=int(rng.integers(1 << 20)), cost=COST.get(algo, 2))
                if rng.random() < 0.5:  # documented non-default options
                    c["options"] = random_options(algo, rng)
                if v == "episodes":
                    if algo not in HAS_EP:
                        continue
                    c["total_episodes"] = int(rng.integers(1, 5))
                    c["total_timesteps"] = int(rng.choice([total, 400]))
                elif v == "zero":
                    if algo not in HAS_START:
                        c["total_timesteps"] = 0
                        if algo == "pets":
                            continue
                    else:
                        c["global_step"] = total
                elif v == "prefilled":
                    # the buffer handed over already holds transitions collected
                    # elsewhere; the run itself starts at step 0
                    if algo not in WARMUP or algo == "pets":
                        continue
                    c["prefill"] = int(rng.integers(15, 40))
                    c["learning_starts"] = int(rng.choice([6, 9, 14]))
                elif v == "start_mid":
                    if algo not in HAS_START:
                        continue
                    c["global_step"] = int(rng.integers(1, total - 5))
                    if algo in HAS_EP and rng.random() < 0.5:
                        c["total_episodes"] = int(rng.integers(1, 4))
                cases.append(c)
        for algo in TAB:
            cases.append(dict(kind="tab", algo=algo, script=make_script(rng),
                              total_timesteps=int(rng.choice([0, 1, 23, 37])),
                              seed=int(rng.integers(1 << 20)),
                              cost=COST.get(algo, 2)))
            # round 9: every tabular learner sees an episode ended by truncation
            # alone and one ended by termination well inside the budget
            head = [[int(rng.integers(1, 5)), "U"], [int(rng.integers(1, 5)), "T"]]
            if rng.random() < 0.5:
                head.reverse()
            cases.append(dict(kind="tab", algo=algo,
                              script=head + make_script(rng, 3),
                              total_timesteps=int(rng.choice([23, 37])),
                              seed=int(rng.integers(1 << 20)),
                              cost=COST.get(algo, 2)))
        for algo in ("reinforce", "actor_critic"):
            for tae in (False, True):
                cases.append(dict(kind="episodic", algo=algo, script=make_script(rng),
                                  total_timesteps=int(rng.integers(15, 40)),
                                  steps_per_update=int(rng.integers(3, 12)),
                                  train_after_episode=tae,
                                  seed=int(rng.integers(1 << 20)), cost=3))
            # episodes that end exactly on the collection target
            L = int(rng.integers(2, 6))
            cases.append(dict(kind="episodic", algo=algo,
                              script=[[L, "T"], [L, "U"]], total_timesteps=4 * L,
                              steps_per_update=2 * L, train_after_episode=False,
                              seed=int(rng.integers(1 << 20)), cost=3))
        cases.append(dict(kind="a2c", scripts=[make_script(rng) for _ in range(3)],
                          n_envs=int(rng.integers(1, 4)),
                          total_timesteps=int(rng.integers(10, 50)),
                          steps_per_update=int(rng.integers(2, 6)),
                          seed=int(rng.integers(1 << 20)), cost=3))
        cases.append(dict(kind="ppo", scripts=[make_script(rng) for _ in range(3)],
                          n_envs=int(rng.integers(1, 4)),
                          iterations=int(rng.integers(1, 4)),
                          rollout=int(rng.integers(2, 6)),
                          seed=int(rng.integers(1 << 20)), cost=7))
        cases.append(dict(kind="cmaes", script=make_script(rng),
                          total_episodes=int(rng.integers(1, 11)),
                          seed=int(rng.integers(1 << 20)), cost=5))
        for k in ("T", "U"):
            cases.append(dict(kind="rollout_helper", end=k,
                              length=int(rng.integers(1, 9)),
                              seed=int(rng.integers(1 << 20)), cost=1))
        for sched in ("uts", "smt", "smt", "amt", "amt_rr", "amt_rr", "amt"):
            for bi, base in enumerate(("td3", "sac") if sched == "uts"
                                      else ("ddpg", "td3")):
                cases.append(dict(
                    kind="sched", sched=sched, base=base,
                    n_tasks=int(rng.integers(1, 6)),
                    # rounds of 1, 2 and 3 episodes: with more than one episode
                    # per round the budget usually ends inside a round
                    interval=1 + (len(cases) + bi) % 3,
                    budget=int(rng.integers(35, 70)),
                    scripts=[make_script(rng, 3) for _ in range(5)],
                    vector=bool(rng.integers(2)),
                    # second-stage budget: a third of the total, or so small
                    # that it ends inside the episode running when b1 is hit
                    b2=int(rng.choice([-1, 0, 10 ** 6])) if base == "ddpg"
                    else int(rng.integers(1, 4)),
                    seed=int(rng.integers(1 << 20)), cost=9))
    for i in range(12 * reps):
        cases.append(dict(kind="ducb", seed=int(rng.integers(1 << 30)), cost=0.5))
        cases.append(dict(kind="selector", seed=int(rng.integers(1 << 30)),
                          cost=0.5))
    return cases


def run_case(case):
    return globals()["run_" + case["kind"]](case)


# ------------------------------------------------------------------ helpers
def expected_steps(script, budget_left, total_episodes):
    """Steps a step-loop routine must execute on this script: the remaining
    budget, or fewer if the episode limit is reached first."""
    if budget_left <= 0:
        return 0, None
    n = eps = k = t = 0
    while n < budget_left:
        n += 1
        t += 1
        if t == script[k % len(script)][0]:
            eps += 1
            k += 1
            t = 0
            if total_episodes is not None and eps >= total_episodes:
                return n, "episodes"
    return n, "budget"


def count_steps(events):
    return sum(1 for e in events if e["k"] == "step")


def check_discipline(res, tr, algo):
    if any(e["k"] == "step_after_end" for e in tr.events):
        res.violation(f"C11/step_after_end/{algo}",
                      "environment stepped after an episode ended without reset")
        return False
    return True


def call_guarded(res, algo, run):
    try:
        run.call()
        return True
    except StepAfterEnd:
        res.violation(f"C11/step_after_end/{algo}",
                      "environment stepped after an episode ended without reset")
        return False


# ------------------------------------------------------------------ loops
def run_loop(case):
    res = Result()
    from vf.algos import make_run

    algo = case["algo"]
    cfg = dict(case)
    cfg.update(batch_size=4, update_frequency=2, target_update_frequency=5,
               low=[-1.0, 0.5], high=[2.0, 3.0], snapshots=True, copy_leaves=False,
               snap_on_log=False, buffer_size=500)
    if cfg.get("total_episodes") is None:
        cfg.pop("total_episodes", None)
    run = make_run(algo, cfg)
    tr = run.trace
    initial = tr.snap()
    ok, fine = guarded(res, f"C11/raises/{algo}", call_guarded, res, algo, run)
    if not ok or not fine:
        return res
    if not check_discipline(res, tr, algo):
        return res
    start = case["global_step"] if algo in HAS_START else 0
    budget_left = case["total_timesteps"] - start
    want, why = expected_steps(case["script"], budget_left,
                               case.get("total_episodes") if algo in HAS_EP else None)
    got = count_steps(tr.events)
    res.see("calls_checked")
    if why == "episodes":
        res.see("stopped_by_episode_limit")
    elif why == "budget":
        res.see("stopped_by_budget")
    if got != want:
        mech = "budget_overrun" if got > want and why != "episodes" else (
            "continues_after_episode_limit" if got > want else "stops_early")
        res.violation(f"C11/{mech}/{algo}",
                      f"{algo}: executed {got} environment steps, contract gives "
                      f"{want} (budget left {budget_left}, episode limit "
                      f"{case.get('total_episodes')}, script {case['script']})")
        return res
    rc = run.returned_counter()
    if rc is not None:
        if rc != start + got:
            mech = ("empty_budget" if got == 0 else
                    "episode_limit_break" if why == "episodes" else "natural_end")
            res.violation(
                f"C11/returned_counter/{mech}/{algo}",
                f"{algo}: started at {start}, executed {got} steps, returned "
                f"counter {rc} (expected {start + got}); stopped by {why}")
        res.see("returned_counters_checked")
    # warm-up: no parameter change visible before the documented start
    if algo in WARMUP:
        ls = case["learning_starts"]
        k = 0
        for e in tr.events:
            if e["k"] != "step":
                continue
            idx = start + k
            k += 1
            limit_ok = idx < ls if algo == "pets" else idx <= ls
            if not limit_ok:
                break
            changed = [n for n, d in e["snap"].items() if initial.get(n) != d]
            if changed:
                res.violation(
                    f"C11/update_before_warmup/{algo}",
                    f"{algo}: {changed} changed before environment step index "
                    f"{idx} although learning_starts={ls}")
                return res
            res.see("warmup_snapshots_checked")
        final = tr.snap()
        if any(initial[n] != final[n] for n in initial):
            res.see("runs_with_learning")
        elif start + got > ls + 1:
            res.notes.append(f"{algo}: nothing learned after warm-up")
    res.nontrivial = why in ("episodes", "budget") and got > 0
    res.state((algo, case["variant"], why))
    return res


def run_tab(case):
    res = Result()
    from vf.algos import make_run

    algo = case["algo"]
    cfg = dict(case)
    cfg.update(snapshots=False, logger=bool(case["seed"] % 2))
    run = make_run(algo, cfg)
    ok, fine = guarded(res, f"C11/raises/{algo}", call_guarded, res, algo, run)
    if not ok or not fine:
        return res
    if not check_discipline(res, run.trace, algo):
        return res
    got = count_steps(run.trace.events)
    res.see("calls_checked")
    if got != case["total_timesteps"]:
        res.violation(f"C11/budget/{algo}", f"{algo}: executed {got} steps for a "
                      f"budget of {case['total_timesteps']}")
    res.see("stopped_by_budget")
    res.nontrivial = got > 0
    res.state((algo, case["total_timesteps"]))
    return res


# ------------------------------------------------------------------ episodic
def run_episodic(case):
    res = Result()
    from vf.algos import make_run

    algo = case["algo"]
    cfg = dict(case)
    cfg.update(snapshots=False, discrete=bool(case["seed"] % 2),
               low=[-1.0], high=[1.0])
    if case["train_after_episode"]:
        # an update data set of a single transition is rejected loudly by the
        # value loss (batch size 1, see C03/C12): keep collections >= 2 steps
        cfg["script"] = [[max(2, L), k] for L, k in case["script"]]
        case = dict(case, script=cfg["script"])
    cfg["steps_per_update"] = max(2, case["steps_per_update"])
    case = dict(case, steps_per_update=cfg["steps_per_update"])
    run = make_run(algo, cfg)
    ok, fine = guarded(res, f"C11/raises/{algo}", call_guarded, res, algo, run)
    if not ok or not fine:
        return res
    if not check_discipline(res, run.trace, algo):
        return res
    # reference: whole episodes until >= steps_per_update (or one episode),
    # repeated until the cumulative count reaches the budget
    script = case["script"]
    total = 0
    k = 0
    while total < case["total_timesteps"]:
        coll = 0
        while True:
            coll += script[k % len(script)][0]
            k += 1
            if case["train_after_episode"] or coll >= case["steps_per_update"]:
                break
        total += coll
    got = count_steps(run.trace.events)
    res.see("calls_checked")
    if got != total:
        res.violation(f"C11/episodic_collection/{algo}",
                      f"{algo}: executed {got} steps; whole-episode collection to "
                      f">= {case['steps_per_update']} steps per update and a budget "
                      f"of {case['total_timesteps']} gives {total}")
    # every episode is complete
    ends = [e for e in run.trace.events if e["k"] == "step"]
    if ends and not (ends[-1]["terminated"] or ends[-1]["truncated"]):
        res.violation(f"C11/episodic_collection/{algo}", "collection stopped in "
                      "the middle of an episode")
    res.nontrivial = got > case["total_timesteps"]
    res.state((algo, case["train_after_episode"]))
    return res


def run_a2c(case):
    res = Result()
    from vf.algos import make_run

    cfg = dict(case)
    cfg.update(snapshots=False, discrete=bool(case["seed"] % 2))
    run = make_run("a2c", cfg)
    ok, fine = guarded(res, "C11/raises/a2c", call_guarded, res, "a2c", run)
    if not ok or not fine:
        return res
    if not check_discipline(res, run.trace, "a2c"):
        return res
    n_envs = case["n_envs"]
    per = case["steps_per_update"] * n_envs
    want_v = -(-case["total_timesteps"] // per) * case["steps_per_update"]
    got_v = sum(1 for e in run.trace.events if e["k"] == "vstep")
    res.see("calls_checked")
    if got_v != want_v:
        res.violation("C11/rollout_count/a2c", f"a2c executed {got_v} vector steps,"
                      f" whole rollouts up to the budget give {want_v}")
    res.nontrivial = True
    return res


def run_ppo(case):
    res = Result()
    from vf.algos import make_run

    cfg = dict(case)
    cfg.update(snapshots=False)
    run = make_run("ppo", cfg)
    ok, fine = guarded(res, "C11/raises/ppo", call_guarded, res, "ppo", run)
    if not ok or not fine:
        return res
    if not check_discipline(res, run.trace, "ppo"):
        return res
    got_v = sum(1 for e in run.trace.events if e["k"] == "vstep")
    want_v = case["iterations"] * case["rollout"]
    res.see("calls_checked")
    if got_v != want_v:
        res.violation("C11/rollout_count/ppo", f"ppo executed {got_v} vector steps "
                      f"for {case['iterations']} x {case['rollout']}")
    res.nontrivial = True
    return res


def run_cmaes(case):
    res = Result()
    from vf.algos import make_run

    cfg = dict(case)
    cfg.update(snapshots=False, low=[-1.0], high=[1.0])
    run = make_run("cmaes", cfg)
    ok, fine = guarded(res, "C11/raises/cmaes", call_guarded, res, "cmaes", run)
    if not ok or not fine:
        return res
    if not check_discipline(res, run.trace, "cmaes"):
        return res
    ends = sum(1 for e in run.trace.events
               if e["k"] == "step" and (e["terminated"] or e["truncated"]))
    steps = [e for e in run.trace.events if e["k"] == "step"]
    res.see("calls_checked")
    stopped = bool(run.result.stopped)
    if (not stopped and ends != case["total_episodes"]) or ends > case["total_episodes"]:
        res.violation("C11/episode_count/cmaes", f"cmaes ran {ends} episodes, "
                      f"requested {case['total_episodes']} (stopped={stopped})")
    if steps and not (steps[-1]["terminated"] or steps[-1]["truncated"]):
        res.violation("C11/episode_count/cmaes", "stopped inside an episode")
    res.see("stopped_by_episode_limit")
    res.nontrivial = True
    return res


def run_rollout_helper(case):
    res = Result()
    import jax.numpy as jnp

    from rl_blox.util.experiment_helper import generate_rollout
    from vf.loop import ScriptEnv, Trace

    tr = Trace()
    tr.snap_enabled = False
    env = ScriptEnv(tr, [(case["length"], case["end"])], n_actions=3)

    def policy(observation, key):
        return jnp.asarray(1)

    def go():
        try:
            return generate_rollout(env, policy, seed=case["seed"])
        except StepAfterEnd:
            return None

    ok, out = guarded(res, "C11/raises/generate_rollout", go)
    if not ok:
        return res
    res.see("rollout_helper_runs")
    res.see("calls_checked")
    if out is None or not check_discipline(res, tr, "generate_rollout"):
        if not res.viol:
            res.violation("C11/step_after_end/generate_rollout",
                          f"generate_rollout kept stepping a "
                          f"{'truncated' if case['end'] == 'U' else 'terminated'} "
                          f"episode")
        return res
    got = count_steps(tr.events)
    if got != case["length"]:
        res.violation("C11/one_episode/generate_rollout",
                      f"executed {got} steps for an episode of {case['length']}")
    obs, acts, rews = out
    if not (len(obs) == got + 1 and len(acts) == got and len(rews) == got):
        res.violation("C11/one_episode/generate_rollout", "returned arrays do not "
                      "match the executed steps")
    res.nontrivial = True
    res.state(("rollout", case["end"]))
    return res


# ------------------------------------------------------------------ schedulers
def run_sched(case):
    res = Result()
    from functools import partial

    import gymnasium as gym
    from flax import nnx

    from rl_blox.algorithm import active_mt, smt, uniform_task_sampling
    from rl_blox.algorithm import ddpg, sac, td3
    from rl_blox.blox import multitask, replay_buffer as rb
    from vf.loop import ScriptEnv, Trace

    tr = Trace()
    tr.snap_enabled = False
    n_tasks = case["n_tasks"]
    low, high = [-1.0], [1.0]
    if case["vector"]:
        envs = []

        def mk(i):
            def f():
                e = ScriptEnv(tr, case["scripts"][i], low=low, high=high, env_id=i)
                e.task = i
                envs.append(e)
                return e
            return f
        task_set = gym.vector.SyncVectorEnv([mk(i) for i in range(n_tasks)])
        proto = envs[0]
    else:
        base = ScriptEnv(tr, case["scripts"][0], low=low, high=high)

        def set_context(env, ctx):
            env.unwrapped.task = int(ctx[0])
            env.unwrapped.env_id = int(ctx[0])

        contexts = np.arange(n_tasks, dtype=np.float32)[:, None]
        task_set = multitask.DiscreteTaskSet(base, set_context, contexts,
                                             context_aware=False)
        proto = base
    seed = case["seed"]
    if case["base"] == "ddpg":
        st = ddpg.create_ddpg_state(proto, policy_hidden_nodes=[8],
                                    q_hidden_nodes=[8], seed=seed)
        train_st = partial(ddpg.train_ddpg, policy=st.policy,
                           policy_optimizer=st.policy_optimizer, q=st.q,
                           q_optimizer=st.q_optimizer,
                           policy_target=nnx.clone(st.policy),
                           q_target=nnx.clone(st.q), batch_size=4)
    elif case["base"] == "td3":
        st = td3.create_td3_state(proto, policy_hidden_nodes=[8],
                                  q_hidden_nodes=[8], seed=seed)
        train_st = partial(td3.train_td3, policy=st.policy,
                           policy_optimizer=st.policy_optimizer, q=st.q,
                           q_optimizer=st.q_optimizer,
                           policy_target=nnx.clone(st.policy),
                           q_target=nnx.clone(st.q), batch_size=4)
    else:
        st = sac.create_sac_state(proto, policy_hidden_nodes=[8],
                                  q_hidden_nodes=[8], seed=seed)
        ec = sac.EntropyControl(proto, 0.2, True, 1e-3)
        train_st = partial(sac.train_sac, policy=st.policy,
                           policy_optimizer=st.policy_optimizer, q=st.q,
                           q_optimizer=st.q_optimizer, entropy_control=ec,
                           batch_size=4)
    budget = case["budget"]
    buf = rb.MultiTaskReplayBuffer(rb.ReplayBuffer(500), n_tasks)
    sel_log = []
    sched = case["sched"]
    training_steps = None

    def go():
        nonlocal training_steps
        if sched == "uts":
            if case["base"] == "ddpg":
                raise AssertionError("uts needs a routine with a bar argument")
            r = uniform_task_sampling.train_uts(
                task_set, partial(train_st, replay_buffer=rb.ReplayBuffer(500)),
                total_timesteps=budget, episodes_per_task=case["interval"],
                seed=seed, exploring_starts=10, progress_bar=False)
            return r
        if sched == "smt":
            b2 = case.get("b2", -1)
            b1 = budget * 2 // 3 if b2 < 0 else max(0, budget - b2)
            r, training_steps, _ = smt.train_smt(
                task_set, train_st, buf, b1=b1, b2=budget - b1,
                solved_threshold=1e9, unsolvable_threshold=-1e9,
                scheduling_interval=case["interval"], kappa=0.3,
                K=min(2, n_tasks), learning_starts=10, seed=seed,
                progress_bar=False)
            return r
        if sched == "amt_rr":
            selector = _rec_selector(multitask.RoundRobinSelector, sel_log)(
                tasks=np.arange(n_tasks))
        else:
            selector = _rec_selector(multitask.DUCBGeneralized, sel_log)(
                tasks=np.arange(n_tasks), upper_bound=5.0, ducb_gamma=0.9,
                zeta=0.01, baseline="max", op="max-with-0")
        r, training_steps = active_mt.train_active_mt(
            task_set, train_st, buf, r_max=5.0, task_selector=selector,
            total_timesteps=budget, scheduling_interval=case["interval"],
            learning_starts=10, seed=seed, progress_bar=False)
        return r

    import warnings
    with warnings.catch_warnings():
        warnings.simplefilter("ignore")
        ok, result = guarded(res, f"C11/raises/{sched}", _catch_sae, go)
    if not ok:
        return res
    if result == "STEP_AFTER_END" or not check_discipline(res, tr, sched):
        if not res.viol:
            res.violation(f"C11/step_after_end/{sched}", "stepped after episode end")
        return res
    res.see("scheduler_runs")
    steps = [e for e in tr.events if e["k"] == "step"]
    executed = len(steps)
    if executed > budget:
        res.violation(f"C11/scheduler_budget_overrun/{sched}",
                      f"{sched} over {case['base']}: executed {executed} "
                      f"environment steps with a total budget of {budget}")
        return res
    if sched == "uts":
        if executed != budget:
            res.violation(f"C11/scheduler_budget/{sched}",
                          f"{sched}: executed {executed} of {budget} steps")
        rc = int(result.global_step)
        if rc != executed:
            res.violation(f"C11/scheduler_counter/{sched}",
                          f"{sched}: returned global_step {rc}, executed {executed}")
    else:
        per_task = np.zeros(n_tasks, dtype=int)
        for e in steps:
            t = e["task"]
            if t is None or not (0 <= int(t) < n_tasks):
                res.violation(f"C11/invalid_task/{sched}", f"step with task {t}")
                return res
            per_task[int(t)] += 1
        ts = np.asarray(training_steps)
        if int(ts.sum()) != executed or int(ts.sum()) > budget:
            res.violation(f"C11/scheduler_totals/{sched}",
                          f"{sched} over {case['base']}: per-task totals "
                          f"{ts.tolist()} sum to {int(ts.sum())}, executed "
                          f"{executed}, budget {budget}")
        elif not np.array_equal(ts, per_task):
            res.violation(f"C11/scheduler_per_task/{sched}",
                          f"{sched}: per-task totals {ts.tolist()} but steps "
                          f"executed per task were {per_task.tolist()}")
        if sched != "smt" and executed != budget:
            res.violation(f"C11/scheduler_budget/{sched}",
                          f"{sched}: executed {executed} of {budget} steps")
    if sel_log:
        _check_protocol(res, sel_log, n_tasks, sched)
    tasks_seen = {e["task"] for e in steps}
    res.nontrivial = len(tasks_seen) >= min(2, n_tasks)
    res.state((sched, case["base"], n_tasks, case["vector"]))
    return res


def _catch_sae(fn):
    try:
        return fn()
    except StepAfterEnd:
        return "STEP_AFTER_END"


def _rec_selector(base, log):
    class Rec(base):
        def select(self):
            out = super().select()
            log.append(("select", int(out)))
            return out

        def feedback(self, reward):
            out = super().feedback(reward)
            log.append(("feedback", float(reward)))
            return out

    return Rec


def _check_protocol(res, log, n_tasks, who):
    expect = "select"
    for kind, val in log:
        if kind != expect:
            res.violation(f"C11/selector_protocol/{who}",
                          f"two consecutive '{kind}' calls (selection and "
                          f"feedback must alternate)")
            return
        if kind == "select" and not (0 <= val < n_tasks):
            res.violation(f"C11/invalid_task/{who}", f"selected task id {val} "
                          f"with {n_tasks} tasks")
            return
        expect = "feedback" if kind == "select" else "select"
    res.see("selector_protocol_checks")


# ------------------------------------------------------------------ D-UCB
def ducb_reference(arms, rewards, n_arms, B, gamma, zeta):
    t = len(arms)
    N = np.zeros(n_arms)
    S = np.zeros(n_arms)
    for s in range(max(0, t - 250), t):
        w = gamma ** (t - 1 - s)
        N[arms[s]] += w
        S[arms[s]] += w * rewards[s]
    n_t = N.sum()
    val = np.full(n_arms, np.inf)
    nz = N > 0
    with np.errstate(invalid="ignore", divide="ignore"):
        val[nz] = S[nz] / N[nz] + 2 * B * np.sqrt(
            zeta * max(np.log(n_t), 0.0) / N[nz])
    return val


def run_ducb(case):
    res = Result()
    from rl_blox.blox.mapb import DUCB

    rng = np.random.default_rng(case["seed"])
    n_arms = int(rng.integers(1, 7))
    B = float(rng.choice([1.0, 5.0, 100.0]))
    gamma = float(rng.choice([0.5, 0.9, 0.95, 0.99, 1.0]))
    zeta = float(rng.choice([0.002, 0.1, 1.0]))
    ok, d = guarded(res, "C11/raises/DUCB", DUCB, n_arms, B, gamma, zeta)
    if not ok:
        return res
    T = int(rng.choice([30, 80, 300]))
    arms, rewards = [], []
    drift = rng.normal(size=n_arms)
    for t in range(T):
        ok, a = guarded(res, "C11/raises/DUCB.choose_arm", d.choose_arm)
        if not ok:
            return res
        a = int(a)
        if not (0 <= a < n_arms):
            res.violation("C11/invalid_task/DUCB", f"arm {a} of {n_arms}")
            return res
        if t < n_arms:
            # initial rounds: every arm is played
            if t == n_arms - 1 and set(arms + [a]) != set(range(n_arms)):
                res.violation("C11/ducb_initial_rounds",
                              f"after the first {n_arms} rounds only arms "
                              f"{sorted(set(arms + [a]))} were played")
                return res
        elif t >= 2 * n_arms:
            val = ducb_reference(arms, rewards, n_arms, B, gamma, zeta)
            best = np.max(val)
            if not (val[a] >= best - 1e-9 * max(1.0, abs(best)) or
                    (np.isinf(best) and np.isinf(val[a]))):
                res.violation(
                    "C11/ducb_not_maximiser",
                    f"round {t}: chose arm {a} with index {val[a]!r}, maximum is "
                    f"{best!r} (arm {int(np.argmax(val))})",
                    {"values": val, "gamma": gamma, "zeta": zeta, "B": B})
                return res
            res.see("ducb_choices_checked")
        r = float(drift[a] + rng.normal() * 0.3 + 0.01 * t * (a == 0))
        arms.append(a)
        rewards.append(r)
        ok, _ = guarded(res, "C11/raises/DUCB.reward", d.reward, r)
        if not ok:
            return res
    res.nontrivial = T > 2 * n_arms and n_arms > 1
    res.state(("ducb", n_arms, gamma))
    return res


def run_selector(case):
    res = Result()
    from rl_blox.algorithm.active_mt import TASK_SELECTORS
    from rl_blox.blox import multitask

    rng = np.random.default_rng(case["seed"])
    n_tasks = int(rng.integers(1, 6))
    name = str(rng.choice(list(TASK_SELECTORS)))
    cls, kw = TASK_SELECTORS[name]
    hp = dict(upper_bound=3.0, ducb_gamma=0.9, zeta=0.01)
    hp.update(kw)
    log = []
    ok, sel = guarded(res, "C11/raises/selector", _rec_selector(cls, log),
                      tasks=np.arange(n_tasks), **hp)
    if not ok:
        return res
    seen = set()
    for t in range(int(rng.integers(5, 60))):
        ok, task = guarded(res, f"C11/raises/selector.select/{name}", sel.select)
        if not ok:
            return res
        seen.add(int(task))
        # protocol: a second select without feedback must be refused
        if rng.random() < 0.15:
            try:
                sel.select()
                res.violation(f"C11/selector_protocol/{name}",
                              "second selection without feedback accepted")
                return res
            except AssertionError:
                res.see("double_select_refused")
        ok, _ = guarded(res, f"C11/raises/selector.feedback/{name}", sel.feedback,
                        float(rng.normal()))
        if not ok:
            return res
    log2 = [x for x in log]
    _check_protocol(res, [x for x in log2], n_tasks, name)
    if len(log) >= 4 * n_tasks and seen != set(range(n_tasks)):
        res.violation(f"C11/selector_coverage/{name}",
                      f"after {len(log) // 2} rounds only tasks {sorted(seen)} of "
                      f"{n_tasks} were ever selected")
    del multitask
    res.nontrivial = n_tasks > 1
    res.state(("selector", name, n_tasks))
    return res
