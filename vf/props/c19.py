"""C19 - saved models and buffers reload to identical state and behaviour.

Save-at-every-prefix: an operation history is generated; at chosen prefixes the
object is saved and reloaded; original and copy are driven by the same
continuation and compared bitwise after every operation.
"""

import os
import pickle
import shutil
import tempfile

import numpy as np

from vf.core import Result, guarded

ID = "C19"
RULE = (
    "buffers: ReplayBuffer, LAP, PrioritizedReplayBuffer, SubtrajectoryReplay"
    "Buffer, SubtrajectoryReplayBufferPER and MultiTaskReplayBuffer over each, "
    "histories of add / sample / update-priority / reset-max / select-task of "
    "10-50 operations, pickled after every k-th prefix (incl. the empty buffer, "
    "partially filled, wrapped, mid-episode, after sampling, non-uniform "
    "priorities) and continued with 5-20 further operations on original and "
    "copy; modules: MLP, Gaussian MLP, LayerNorm MLP, double-Q, SALE, encoder "
    "policy, ensemble, tanh policies via save_pickle/load_pickle and via "
    "OrbaxCheckpointer.save_model + restore_checkpoint, followed by one "
    "optimiser step on the same batch. Non-trivial = buffer case whose save "
    "point is wrapped or mid-episode and whose continuation samples; module "
    "case with the optimiser step compared; distinct by (class, history seed)"
)
REQUIRED = {
    "save_points": 100, "continuation_ops_compared": 500,
    "sampled_batches_compared": 100, "module_round_trips": 12,
    "orbax_round_trips": 4, "post_reload_optimizer_steps": 8,
}
TIMEOUT = {"quick": 1200, "thorough": 7000}
ASSUMPTIONS = ["only the filled part of the data arrays is compared (unwritten "
               "slots hold uninitialised memory in the original)"]

BUFS = ["ReplayBuffer", "LAP", "PrioritizedReplayBuffer", "Sub", "SubPER",
        "Multi:ReplayBuffer", "Multi:LAP", "Multi:SubPER",
        # many tasks, first visited in non-ascending order
        "Multi12:ReplayBuffer", "Multi12:LAP",
        # user-defined extra key holding 64-bit integers beyond 2**53
        "ReplayBuffer+stamp", "LAP+stamp"]
MODS = ["mlp", "gaussian", "layernorm", "doubleq", "sale", "encoder_policy",
        "ensemble", "tanh_policy", "gaussian_tanh", "mt_q", "mt_encoder_policy",
        "deep_mlp"]


def gen_cases(tier, seed):
    rng = np.random.default_rng(seed + 1919)
    k = 1 if tier == "quick" else 25
    cases = []
    for b in BUFS:
        for r in range(4 * k):
            cases.append(dict(kind="buffer", cls=b, N=int(rng.integers(1, 10)),
                              n_ops=int(rng.integers(10, 50)),
                              seed=int(rng.integers(1 << 30)), cost=2))
    for m in MODS:
        for via in ("pickle", "orbax"):
            for r in range(k):
                cases.append(dict(kind="module", mod=m, via=via,
                                  seed=int(rng.integers(1 << 30)), cost=4))
    return cases


def run_case(case):
    return globals()["run_" + case["kind"]](case)


# ----------------------------------------------------------------- buffers
def make_buffer(cls, N, H):
    import rl_blox.blox.replay_buffer as rb

    if cls.startswith("Multi"):
        head, base = cls.split(":", 1)
        return rb.MultiTaskReplayBuffer(make_buffer(base, N, H),
                                        int(head[5:] or 2))
    if cls.endswith("+stamp"):
        return getattr(rb, cls[:-6])(
            N, keys=["observation", "action", "reward", "next_observation",
                     "termination", "stamp"],
            dtypes=[float, float, float, float, int, np.int64])
    if cls == "Sub":
        return rb.SubtrajectoryReplayBuffer(max(N, H + 1), horizon=H)
    if cls == "SubPER":
        return rb.SubtrajectoryReplayBufferPER(max(N, H + 1), horizon=H)
    return getattr(rb, cls)(N)


def gen_ops(rng, cls, n):
    sub = "Sub" in cls
    multi = cls.startswith("Multi")
    pool = [8, 0, 11, 3, 1, 9] if cls.startswith("Multi12") else [0, 1]
    prio = any(x in cls for x in ("LAP", "Prioritized", "PER"))
    ops = []
    g = 0
    if cls.startswith("Multi12"):
        ops.append(("select", pool[0]))
    for _ in range(n):
        r = rng.random()
        if multi and r < (0.25 if len(pool) > 2 else 0.1):
            # tasks are first visited in the pool's (non-ascending) order
            seen = [o[1] for o in ops if o[0] == "select"]
            new = [t for t in pool if t not in seen]
            ops.append(("select", new[0] if new and rng.random() < 0.7
                        else int(rng.choice(pool))))
        elif r < 0.6 or g == 0:
            g += 1
            end = rng.random() < 0.2
            ops.append(("add", g, bool(end and rng.random() < 0.6),
                        bool(end and rng.random() < 0.5)))
        elif r < 0.85:
            ops.append(("sample", int(rng.integers(1, 6)),
                        int(rng.integers(1 << 30)), bool(rng.integers(2))))
        elif prio and r < 0.95:
            ops.append(("update", int(rng.integers(1 << 30))))
        elif prio:
            ops.append(("reset",))
        else:
            ops.append(("sample", 2, int(rng.integers(1 << 30)), True))
    del sub
    return ops


def apply_op(buf, op, cls, H, ctx):
    """Apply one operation; returns something comparable (or None)."""
    sub = "Sub" in cls
    kind = op[0]
    if kind == "select":
        buf.select_task(op[1])
        return None
    if kind == "add":
        g, term, trunc = op[1], op[2], op[3]
        if sub:
            if term and trunc:
                trunc = False
            sample = dict(observation=np.array([g, 0.5]), action=np.array([g + 0.25]),
                          reward=float(g), next_observation=np.array([g, 1.5]),
                          terminated=term, truncated=trunc)
        else:
            sample = dict(observation=np.array([g, 0.5]), action=g + 0.25,
                          reward=float(g), next_observation=np.array([g, 1.5]),
                          termination=term)
        if cls.endswith("+stamp"):
            sample["stamp"] = np.int64(1_760_000_000_000_000_001 + 12_345 * g)
        if g % 2 == 1:  # keyword arguments have no order (the first add included)
            sample = dict(reversed(list(sample.items())))
        buf.add_sample(**sample)
        return None
    if kind == "sample":
        if len(buf) == 0:
            return None
        bs, seed, inter = op[1], op[2], op[3]
        rng = np.random.default_rng(seed)
        if sub:
            inner = buf.buffers if cls.startswith("Multi") else [buf]
            # need an admissible start in every buffer that may be chosen
            for b in inner:
                if len(b) and not np.any(np.asarray(b.mask_)[: len(b)] > 0):
                    return None
            out = buf.sample_batch(bs, min(H, 1 + seed % H), inter, rng)
        else:
            out = buf.sample_batch(bs, rng)
        ctx["sampled"] = True
        if isinstance(out, tuple) and not hasattr(out, "_fields"):
            return [np.asarray(x) for x in out[0]] + [np.asarray(out[1])]
        return [np.asarray(x) for x in out]
    if kind == "update":
        if not ctx.get("sampled"):
            return None
        inner = buf.buffers[getattr(buf, "sampled_task_idx", 0)] \
            if cls.startswith("Multi") else buf
        n = len(inner.priority.sampled_indices)
        if n == 0:
            return None
        pr = np.random.default_rng(op[1]).uniform(0.1, 9.0, size=n)
        buf.update_priority(pr)
        return None
    if kind == "reset":
        buf.reset_max_priority()
        return None
    raise KeyError(kind)


def buffer_state(buf):
    """Comparable snapshot of everything observable."""
    out = {}
    inner = getattr(buf, "buffers", None)
    if inner is not None:
        out["selected"] = buf.selected_task
        out["active"] = sorted(buf.active_buffers)
        for i, b in enumerate(inner):
            out[f"b{i}"] = buffer_state(b)
        return out
    L = len(buf)
    out["len"], out["insert_idx"], out["size"] = L, buf.insert_idx, buf.buffer_size
    out["keys"] = list(buf.buffer.keys())
    out["fields"] = list(buf.Batch._fields)
    for k, a in buf.buffer.items():
        out["data:" + k] = (str(a.dtype), a.shape, np.asarray(a[:L]).tobytes())
    for name in ("episode_timesteps", "environment_terminates", "horizon"):
        if hasattr(buf, name):
            out[name] = getattr(buf, name)
    if hasattr(buf, "mask_"):
        out["mask"] = np.asarray(buf.mask_).tobytes()
    if hasattr(buf, "priority"):
        p = buf.priority
        out["max_priority"] = float(p.max_priority)
        out["priority"] = np.asarray(p.priority[:L]).tobytes()
        out["sampled_indices"] = np.asarray(p.sampled_indices).tolist()
    return out


def diff_state(a, b, prefix=""):
    for k in a:
        if k not in b:
            return prefix + k + " missing"
        if isinstance(a[k], dict):
            d = diff_state(a[k], b[k], prefix + k + ".")
            if d:
                return d
        elif a[k] != b[k]:
            return prefix + k
    for k in b:
        if k not in a:
            return prefix + k + " extra"
    return None


def run_buffer(case):
    res = Result()
    rng = np.random.default_rng(case["seed"])
    cls, N = case["cls"], case["N"]
    H = int(rng.integers(1, 4))
    ops = gen_ops(rng, cls, case["n_ops"])
    prefixes = sorted(set([0, len(ops) // 3, len(ops) // 2, len(ops) - 6]
                          + [int(x) for x in rng.integers(0, len(ops), size=3)]))
    nontrivial = False
    for p in prefixes:
        if p < 0:
            continue
        ok, orig = guarded(res, "C19/raises/constructor", make_buffer, cls, N, H)
        if not ok:
            return res
        ctx = {}
        for op in ops[:p]:
            ok, _ = guarded(res, f"C19/raises/{cls}/{op[0]}", apply_op, orig, op,
                            cls, H, ctx)
            if not ok:
                return res
        ok, blob = guarded(res, f"C19/buffer_pickle_fails/{cls}", pickle.dumps, orig)
        if not ok:
            return res
        ok, copy = guarded(res, f"C19/buffer_unpickle_fails/{cls}", pickle.loads, blob)
        if not ok:
            return res
        res.see("save_points")
        d = diff_state(buffer_state(orig), buffer_state(copy))
        if d:
            res.violation(f"C19/buffer_state_differs/{cls}",
                          f"after reload at prefix {p}: '{d}' differs")
            return res
        wrapped = any(len(b) == b.buffer_size for b in
                      (orig.buffers if hasattr(orig, "buffers") else [orig]))
        mid = any(getattr(b, "episode_timesteps", 0) > 0 for b in
                  (orig.buffers if hasattr(orig, "buffers") else [orig]))
        ctx2 = dict(ctx)
        sampled_after = False
        for j, op in enumerate(ops[p:p + 20]):
            ok, o1 = guarded(res, f"C19/raises/{cls}/{op[0]}", apply_op, orig, op,
                             cls, H, ctx)
            if not ok:
                return res
            ok, o2 = guarded(res, f"C19/reloaded_raises/{cls}/{op[0]}", apply_op,
                             copy, op, cls, H, ctx2)
            if not ok:
                return res
            if (o1 is None) != (o2 is None) or (o1 is not None and (
                    len(o1) != len(o2) or any(
                        x.shape != y.shape or x.tobytes() != y.tobytes()
                        for x, y in zip(o1, o2)))):
                res.violation(f"C19/sampled_batch_differs/{cls}",
                              f"reload at prefix {p}: continuation op {j} "
                              f"({op[0]}) returned a different batch")
                return res
            if o1 is not None:
                res.see("sampled_batches_compared")
                sampled_after = True
            d = diff_state(buffer_state(orig), buffer_state(copy))
            if d:
                res.violation(f"C19/buffer_evolution_differs/{cls}",
                              f"reload at prefix {p}: after continuation op {j} "
                              f"({op[0]}) '{d}' differs")
                return res
            res.see("continuation_ops_compared")
        nontrivial |= (wrapped or mid) and sampled_after
        res.state((cls, p == 0, wrapped, mid))
    res.nontrivial = nontrivial
    return res


# ----------------------------------------------------------------- modules
def make_module(kind, rng, other_space=False):
    import gymnasium as gym
    from flax import nnx

    from rl_blox.blox.double_qnet import ContinuousClippedDoubleQNet
    from rl_blox.blox.function_approximator import policy_head as ph
    from rl_blox.blox.function_approximator.gaussian_mlp import GaussianMLP
    from rl_blox.blox.function_approximator.layer_norm_mlp import LayerNormMLP
    from rl_blox.blox.function_approximator.mlp import MLP

    r = nnx.Rngs(int(rng.integers(10000)))
    space = gym.spaces.Box(np.array([-1.0, 0.0], np.float32),
                           np.array([2.0, 3.0], np.float32))
    if other_space:
        # a template built for another action range: a reload must take every
        # variable from the saved model, not from the template
        space = gym.spaces.Box(np.array([-1.0, -1.0], np.float32),
                               np.array([1.0, 1.0], np.float32))
    if kind == "mlp":
        return MLP(3, 2, [5, 4], "relu", r), "x3"
    if kind == "deep_mlp":  # more than ten entries in a layer list
        return MLP(3, 2, [4, 5, 6, 4, 5, 6, 4, 5, 6, 4, 5, 6], "tanh", r), "x3"
    if kind == "gaussian":
        return GaussianMLP(bool(rng.integers(2)), 3, 2, [5], "tanh", r), "x3"
    if kind == "layernorm":
        return LayerNormMLP(3, 2, [5], "elu", r), "x3"
    if kind == "doubleq":
        return ContinuousClippedDoubleQNet(MLP(3, 1, [5], "relu", r),
                                           MLP(3, 1, [5], "relu", r)), "x3"
    if kind == "tanh_policy":
        return ph.DeterministicTanhPolicy(MLP(3, 2, [5], "relu", r), space), "x3"
    if kind == "gaussian_tanh":
        return ph.GaussianTanhPolicy(GaussianMLP(True, 3, 2, [5], "tanh", r),
                                     space), "x3"
    if kind == "sale":
        from rl_blox.blox.embedding.sale import SALE
        return SALE(MLP(3, 4, [5], "elu", r), MLP(6, 4, [5], "elu", r)), "sale"
    if kind == "encoder_policy":
        from rl_blox.blox.embedding.model_based_encoder import (
            create_model_based_encoder_and_policy,
        )
        return create_model_based_encoder_and_policy(
            3, 2, space, policy_hidden_nodes=[5], encoder_n_bins=5,
            encoder_zs_dim=4, encoder_za_dim=3, encoder_zsa_dim=4,
            encoder_hidden_nodes=[5], rngs=r), "x3"
    if kind in ("mt_q", "mt_encoder_policy"):
        from rl_blox.blox.embedding import task_embedding as te
        if kind == "mt_q":
            m = te.MTMLPQNetwork(3, 3, 3, 2, [5], "tanh", r)
        else:
            m = te.create_model_based_mt_encoder_and_policy(
                3, 3, 3, 2, space, policy_hidden_nodes=[5], encoder_n_bins=5,
                encoder_zs_dim=4, encoder_za_dim=3, encoder_zsa_dim=4,
                encoder_hidden_nodes=[5], rngs=r)
        return m, "x3"
    if kind == "ensemble":
        from rl_blox.blox.probabilistic_ensemble import GaussianMLPEnsemble
        return GaussianMLPEnsemble(3, True, 3, 2, [5], "tanh", r), "x3"
    raise KeyError(kind)


def forward(m, kind, x, a):
    out = m(x, a) if kind == "sale" else m(x)
    return [np.asarray(o) for o in (out if isinstance(out, tuple) else (out,))]


def leaves_of(m):
    import jax
    from flax import nnx

    return [np.asarray(x) for x in jax.tree_util.tree_leaves(nnx.state(m))]


def one_step(m, kind, x, a):
    import jax.numpy as jnp
    import optax
    from flax import nnx

    opt = nnx.Optimizer(m, optax.adam(1e-2), wrt=nnx.Param)

    def loss(mod):
        out = mod(x, a) if kind == "sale" else mod(x)
        outs = out if isinstance(out, tuple) else (out,)
        return sum(jnp.sum(o ** 2) for o in outs)

    g = nnx.grad(loss)(m)
    opt.update(m, g)
    return leaves_of(m)


def run_module(case):
    res = Result()
    import jax.numpy as jnp
    from flax import nnx

    from rl_blox.util import serialize

    rng = np.random.default_rng(case["seed"])
    mod_kind = case["mod"]
    ok, made = guarded(res, f"C19/raises/construct/{mod_kind}", make_module,
                       mod_kind, rng)
    if not ok:
        return res
    m, sig = made
    # move the parameters away from the initialisation
    import jax
    state = nnx.state(m)
    keys = iter(jax.random.split(jax.random.key(case["seed"] % 7919), 200))
    state = jax.tree.map(
        lambda v: v + 0.1 * jax.random.normal(next(keys), v.shape, v.dtype)
        if hasattr(v, "dtype") and jnp.issubdtype(v.dtype, jnp.floating) else v,
        state)
    nnx.update(m, state)
    x = jnp.asarray(rng.normal(size=(4, 3)), jnp.float32)
    a = jnp.asarray(rng.normal(size=(4, 2)), jnp.float32)
    y0 = forward(m, sig, x, a)
    l0 = leaves_of(m)
    tmp = tempfile.mkdtemp(prefix="vf-c19-")
    try:
        if case["via"] == "pickle":
            fn = os.path.join(tmp, "m.pkl")
            dev = "cpu" if case["seed"] % 2 else None  # both code paths
            ok, _ = guarded(res, f"C19/save_pickle_fails/{mod_kind}",
                            serialize.save_pickle, fn, m, dev)
            if not ok:
                return res
            graphdef, _ = nnx.split(m)
            ok, m2 = guarded(res, f"C19/load_pickle_fails/{mod_kind}",
                             serialize.load_pickle, fn, graphdef,
                             "cpu" if (case["seed"] // 2) % 2 else None)
            if not ok:
                return res
            res.see("module_round_trips")
        else:
            from rl_blox.blox.probabilistic_ensemble import restore_checkpoint
            from rl_blox.logging.checkpointer import OrbaxCheckpointer

            ck = OrbaxCheckpointer(checkpoint_dir=os.path.join(tmp, "ck"), verbose=0)
            path = os.path.join(tmp, "ck", "model_a")
            ok, _ = guarded(res, f"C19/orbax_save_fails/{mod_kind}", ck.save_model,
                            path, m)
            if not ok:
                return res
            fresh, _ = make_module(mod_kind, np.random.default_rng(case["seed"] + 5),
                                   other_space=True)
            if mod_kind in ("gaussian", "gaussian_tanh"):
                # same head layout as the saved module
                fresh, _ = make_module(mod_kind, np.random.default_rng(case["seed"]),
                                       other_space=True)
            ok, m2 = guarded(res, f"C19/orbax_restore_fails/{mod_kind}",
                             restore_checkpoint, path, fresh)
            if not ok:
                return res
            res.see("orbax_round_trips")
            res.see("module_round_trips")
        l2 = leaves_of(m2)
        if len(l2) != len(l0) or any(
                p.shape != q.shape or p.dtype != q.dtype or p.tobytes() != q.tobytes()
                for p, q in zip(l0, l2)):
            res.violation(f"C19/module_state_differs/{mod_kind}/{case['via']}",
                          "reloaded module's variables are not bit-identical")
            return res
        y2 = forward(m2, sig, x, a)
        if any(p.tobytes() != q.tobytes() for p, q in zip(y0, y2)):
            res.violation(f"C19/module_output_differs/{mod_kind}/{case['via']}",
                          "reloaded module gives different outputs")
            return res
        s1 = one_step(m, sig, x, a)
        s2 = one_step(m2, sig, x, a)
        if any(p.tobytes() != q.tobytes() for p, q in zip(s1, s2)):
            res.violation(f"C19/module_evolution_differs/{mod_kind}/{case['via']}",
                          "one optimiser step on the same batch gives different "
                          "parameters for original and reloaded module")
            return res
        res.see("post_reload_optimizer_steps")
        if case["via"] == "pickle":
            # second generation: the (changed) module is saved to the same file
            # and loaded twice; each load reflects the file's present contents
            # and the loaded objects are independent of each other
            ok, _ = guarded(res, f"C19/save_pickle_fails/{mod_kind}",
                            serialize.save_pickle, fn, m, dev)
            if not ok:
                return res
            loads = []
            for _ in range(2):
                ok, m3 = guarded(res, f"C19/load_pickle_fails/{mod_kind}",
                                 serialize.load_pickle, fn, graphdef, None)
                if not ok:
                    return res
                loads.append(m3)
            for m3 in loads:
                if any(p.tobytes() != q.tobytes() for p, q in zip(s1, leaves_of(m3))):
                    res.violation(f"C19/stale_reload/{mod_kind}",
                                  "after saving the updated module to the same "
                                  "file again, load_pickle does not return its "
                                  "current parameters")
                    return res
            one_step(loads[0], sig, x, a)
            if any(p.tobytes() != q.tobytes() for p, q in zip(s1, leaves_of(loads[1]))) \
                    or any(p.tobytes() != q.tobytes()
                           for p, q in zip(s2, leaves_of(m2))):
                res.violation(f"C19/reloaded_objects_share_state/{mod_kind}",
                              "updating one reloaded module changed another "
                              "module loaded from the same file")
                return res
            res.see("second_generation_reloads")
    finally:
        shutil.rmtree(tmp, ignore_errors=True)
    res.nontrivial = True
    res.state((mod_kind, case["via"]))
    return res
