import sys

from vf.core import ensure_deps, worker_main

if __name__ == "__main__":
    ensure_deps()
    worker_main(sys.argv[1:])
