"""In-loop monitoring harness: the real train_* routines run on recording,
scripted environments with tiny networks while a Trace collects, in one total
order, every environment call, buffer call, logger call, instrumented inner
routine call and parameter snapshot.  Oracles (per property) read the Trace.

Nothing in the repository is edited: the harness passes recording objects as
arguments and rebinds module globals / class attributes by name for the
duration of a run (restored afterwards).
"""

from __future__ import annotations

import contextlib
import hashlib
import importlib

import gymnasium as gym
import numpy as np


class StepAfterEnd(RuntimeError):
    pass


# ---------------------------------------------------------------------------
# trace
# ---------------------------------------------------------------------------
class Trace:
    def __init__(self):
        self.events = []
        self.objs = {}       # name -> nnx object / getter
        self.leaves = {}     # digest -> list[np.ndarray]
        self.copy_leaves = True
        self.snap_enabled = True
        self.n_steps = 0     # env steps executed so far (all envs)

    def ev(self, kind, **kw):
        e = {"k": kind, "i": len(self.events), "n": self.n_steps}
        e.update(kw)
        self.events.append(e)
        return e

    def register(self, name, obj):
        self.objs[name] = obj

    def digest_of(self, obj):
        import jax
        from flax import nnx

        if callable(obj) and not isinstance(obj, (nnx.Module, nnx.Optimizer)):
            obj = obj()
        if isinstance(obj, (nnx.Module, nnx.Optimizer)):
            leaves = jax.tree_util.tree_leaves(nnx.state(obj))
        else:
            leaves = jax.tree_util.tree_leaves(obj)
        arrs = []
        h = hashlib.sha256()
        for leaf in leaves:
            try:
                a = np.asarray(leaf)
            except TypeError:
                a = np.asarray(jax.random.key_data(leaf))
            arrs.append(a)
            h.update(str(a.dtype).encode())
            h.update(str(a.shape).encode())
            h.update(a.tobytes())
        d = h.hexdigest()[:20]
        if self.copy_leaves and d not in self.leaves:
            self.leaves[d] = [a.copy() for a in arrs]
        return d

    def snap(self):
        if not self.snap_enabled:
            return None
        return {name: self.digest_of(o) for name, o in self.objs.items()}

    # helpers for oracles
    def of(self, *kinds):
        return [e for e in self.events if e["k"] in kinds]


# ---------------------------------------------------------------------------
# environments
# ---------------------------------------------------------------------------
class RecBox(gym.spaces.Box):
    def sample(self, *a, **kw):
        x = super().sample(*a, **kw)
        if getattr(self, "_trace", None) is not None:
            self._trace.ev("rand_action", action=np.array(x, copy=True))
        return x


class RecDiscrete(gym.spaces.Discrete):
    def sample(self, *a, **kw):
        x = super().sample(*a, **kw)
        if getattr(self, "_trace", None) is not None:
            self._trace.ev("rand_action", action=int(x))
        return x


class ScriptEnv(gym.Env):
    """Deterministic recording environment.

    Episode k has length script[k % len(script)][0] and ends with kind "T"
    (terminated) or "U" (truncated).  Observations encode (env id, episode, t),
    rewards are unique.  Stepping after an episode end without reset raises.
    """

    metadata = {"render_modes": []}

    def __init__(self, trace, script, obs_dim=3, low=None, high=None,
                 n_actions=None, env_id=0, snap_on_step=True, name=None):
        self.trace = trace
        self.script = [tuple(s) for s in script]
        self.env_id = env_id
        self.name = name if name is not None else f"env{env_id}"
        self.obs_dim = max(3, obs_dim)
        self.observation_space = gym.spaces.Box(
            -np.inf, np.inf, (self.obs_dim,), dtype=np.float32)
        if n_actions is not None:
            self.action_space = RecDiscrete(n_actions)
        else:
            low = np.asarray([-1.0] if low is None else low, dtype=np.float32)
            high = np.asarray([1.0] if high is None else high, dtype=np.float32)
            self.action_space = RecBox(low, high, dtype=np.float32)
        self.action_space._trace = trace
        self.episode = -1
        self.t = 0
        self.ended = True
        self.never_reset = True
        self.total_steps = 0
        self.snap_on_step = snap_on_step
        # int_first: the first reset observation is an integer array and the
        # first reward the Python int 1 (whole numbers, as a sparse-reward
        # environment may hand them out); everything later is float
        self.int_first = False

    def _obs(self):
        o = np.zeros(self.obs_dim, dtype=np.float32)
        o[0], o[1], o[2] = self.env_id, self.episode, self.t
        return o

    def reset(self, *, seed=None, options=None):
        super().reset(seed=seed)
        self.episode += 1
        self.t = 0
        self.ended = False
        self.never_reset = False
        o = self._obs()
        self.trace.ev("reset", env=self.name, seed=seed, obs=o.copy())
        if self.int_first and self.total_steps == 0:
            return o.astype(np.int64), {}
        return o, {}

    def step(self, action):
        flush_effects()  # exported acting observations precede this step
        snap = self.trace.snap() if self.snap_on_step else None
        if self.ended:
            self.trace.ev("step_after_end", env=self.name)
            raise StepAfterEnd(
                f"{self.name}: step() after the episode ended without reset()")
        a = np.array(action, copy=True)
        L, kind = self.script[self.episode % len(self.script)]
        self.t += 1
        self.total_steps += 1
        self.trace.n_steps += 1
        last = self.t >= L
        terminated = bool(last and kind == "T")
        truncated = bool(last and kind == "U")
        self.ended = terminated or truncated
        o = self._obs()
        r = 0.5 + 0.001 * self.total_steps + 0.25 * self.env_id
        if self.int_first and self.total_steps == 1:
            r = 1
        self.trace.ev("step", env=self.name, action=a, obs=o.copy(), reward=r,
                      terminated=terminated, truncated=truncated, snap=snap,
                      task=getattr(self, "task", None))
        return o, r, terminated, truncated, {}


class TabularScriptEnv(gym.Env):
    """Discrete observations with scripted stochastic successors."""

    metadata = {"render_modes": []}

    def __init__(self, trace, n_states, n_actions, script, seed=0, name="tab"):
        self.trace = trace
        self.nS, self.nA = n_states, n_actions
        self.observation_space = gym.spaces.Discrete(n_states)
        self.action_space = RecDiscrete(n_actions)
        self.action_space._trace = trace
        self.script = [tuple(s) for s in script]
        self.rng = np.random.default_rng(seed)
        self.self_loop_p = 0.0
        self.fixed_start_p = 0.0
        self.name = name
        self.episode = -1
        self.ended = True
        self.t = 0
        self.total_steps = 0
        self.state = 0
        self.ep_return = 0.0

    def reset(self, *, seed=None, options=None):
        super().reset(seed=seed)
        self.episode += 1
        self.t = 0
        self.ended = False
        self.ep_return = 0.0
        self.state = int(self.rng.integers(self.nS))
        if self.fixed_start_p and self.rng.random() < self.fixed_start_p:
            self.state = 0  # a start state that episodes keep returning to
        self.trace.ev("reset", env=self.name, seed=seed, obs=self.state)
        return self.state, {}

    def step(self, action):
        if self.ended:
            self.trace.ev("step_after_end", env=self.name)
            raise StepAfterEnd(f"{self.name}: step() after episode end")
        if not (isinstance(action, (int, np.integer)) and 0 <= action < self.nA):
            raise AssertionError(f"invalid tabular action {action!r}")
        L, kind = self.script[self.episode % len(self.script)]
        self.t += 1
        self.total_steps += 1
        self.trace.n_steps += 1
        # stochastic successor depending on (s, a)
        base = (self.state * 3 + int(action) * 5 + 1) % self.nS
        nxt = int((base + self.rng.integers(0, 2)) % self.nS)
        if self.self_loop_p and self.rng.random() < self.self_loop_p:
            nxt = int(self.state)  # e.g. bumping into a wall
        r = float(np.round(self.rng.normal() + (nxt == 0), 3))
        last = self.t >= L
        terminated = bool(last and kind == "T")
        truncated = bool(last and kind == "U")
        self.ended = terminated or truncated
        self.ep_return += r
        self.trace.ev("step", env=self.name, action=int(action), prev=self.state,
                      obs=nxt, reward=r, terminated=terminated,
                      truncated=truncated, snap=None)
        self.state = nxt
        info = {}
        if self.ended:
            info["episode"] = {"r": self.ep_return, "l": self.t}
        return nxt, r, terminated, truncated, info


# ---------------------------------------------------------------------------
# recording logger / buffers
# ---------------------------------------------------------------------------
def make_rec_logger(trace, snap_on_log=True):
    from rl_blox.logging.logger import LoggerBase

    class RecLogger(LoggerBase):
        def __init__(self):
            self._n_episodes = 0
            self.n_steps = 0

        @property
        def n_episodes(self):
            return self._n_episodes

        def start_new_episode(self):
            self._n_episodes += 1
            trace.ev("log_start")

        def stop_episode(self, total_steps):
            self.n_steps += total_steps
            trace.ev("log_stop", steps=int(total_steps))

        def define_experiment(self, env_name=None, algorithm_name=None,
                              hparams=None):
            pass

        def record_stat(self, key, value, episode=None, step=None, t=None,
                        verbose=None, format_str="{0:.3f}"):
            try:
                v = np.asarray(value, dtype=float)
                v = float(v) if v.ndim == 0 else v.tolist()
            except (TypeError, ValueError):
                v = repr(value)
            trace.ev("log_stat", key=key, value=v, episode=episode, step=step,
                     snap=trace.snap() if snap_on_log else None)

        def define_checkpoint_frequency(self, key, checkpoint_interval):
            pass

        def record_epoch(self, key, value, episode=None, step=None, t=None):
            trace.ev("log_epoch", key=key, episode=episode, step=step,
                     snap=trace.snap() if snap_on_log else None)

    return RecLogger()


def rec_buffer_class(base, trace, name="buffer"):
    """Subclass of a real buffer class that records add/sample calls."""

    class Rec(base):
        def add_sample(self, **sample):
            trace.ev("add", buf=name,
                     sample={k: np.array(v, copy=True) for k, v in sample.items()},
                     snap=trace.snap())
            return super().add_sample(**sample)

        def sample_batch(self, *a, **kw):
            # subtrajectory buffers: is there any admissible window start?
            # (sampling from a buffer without one is outside the documented
            # domain: p_i / sum(p) is undefined)
            admissible = None
            if hasattr(self, "mask_"):
                w = np.asarray(self.mask_, np.float64)
                pr = getattr(getattr(self, "priority", None), "priority", None)
                if pr is not None:
                    w = w * np.asarray(pr, np.float64)[: len(w)]
                admissible = bool(np.any(w[: len(self)] > 0))
            out = super().sample_batch(*a, **kw)
            b = out[0] if isinstance(out, tuple) and not hasattr(out, "_fields") else out
            trace.ev("sample", buf=name, admissible=admissible,
                     batch={k: np.asarray(getattr(b, k)) for k in b._fields},
                     extra=(np.asarray(out[1]) if b is not out else None),
                     snap=trace.snap())
            return out

    Rec.__name__ = "Rec" + base.__name__
    return Rec


# ---------------------------------------------------------------------------
# rebinding
# ---------------------------------------------------------------------------
@contextlib.contextmanager
def rebound(patches):
    """patches: list of (module_or_class, attribute name, new value).  Raises
    AttributeError (-> inconclusive) if the name does not exist."""
    saved = []
    try:
        for holder, name, new in patches:
            if isinstance(holder, str):
                holder = importlib.import_module(holder)
            if not hasattr(holder, name):
                raise AttributeError(
                    f"monitor unreachable: {holder} has no attribute {name}")
            saved.append((holder, name, holder.__dict__[name]
                          if name in getattr(holder, "__dict__", {})
                          else getattr(holder, name)))
            setattr(holder, name, new)
        yield
    finally:
        for holder, name, old in reversed(saved):
            setattr(holder, name, old)


def recording_call(trace, name, fn, pre=None, post=None, snap=True):
    """Wrap an inner routine: enter/exit events with snapshots."""

    def wrapper(*a, **kw):
        e = trace.ev("call", name=name, phase="enter",
                     snap=trace.snap() if snap else None)
        if pre is not None:
            pre(e, a, kw)
        out = fn(*a, **kw)
        e2 = trace.ev("call", name=name, phase="exit",
                      snap=trace.snap() if snap else None)
        if post is not None:
            post(e2, a, kw, out)
        return out

    wrapper.__wrapped__ = fn
    wrapper.__name__ = getattr(fn, "__name__", name)
    return wrapper


def acting_obs_patches(trace):
    """Patches that export the observation an acting policy is conditioned on."""
    import jax

    from rl_blox.algorithm import ddpg
    from rl_blox.blox.function_approximator import policy_head as ph

    def rec(obs):
        trace.ev("act_obs", obs=np.array(obs, copy=True))

    patches = []
    orig_sa = ddpg.sample_actions

    def export(obs):
        # concrete value (eager call from the loop): record directly; traced
        # unbatched value (acting inside a jitted helper): ordered callback;
        # traced batch (a training step re-using the sampler): not acting.
        if not isinstance(obs, jax.core.Tracer):
            rec(obs)
        elif obs.ndim == 1:
            jax.debug.callback(rec, obs, ordered=True)

    def sample_actions(action_low, action_high, action_scale, exploration_noise,
                       policy, obs, key):
        export(obs)
        return orig_sa(action_low, action_high, action_scale, exploration_noise,
                       policy, obs, key)

    patches.append((ddpg, "sample_actions", sample_actions))
    for cls_name in ("GaussianTanhPolicy", "GaussianPolicy", "SoftmaxPolicy"):
        cls = getattr(ph, cls_name)
        orig = cls.__dict__["sample"]

        def sample(self, observation, key, _orig=orig):
            export(observation)
            return _orig(self, observation, key)

        patches.append((cls, "sample", sample))
    return patches


def flush_effects():
    import jax

    jax.effects_barrier()
