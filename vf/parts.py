"""Small, independently initialised modules and batches shared by C03 / C05."""

import numpy as np


def box(rng, A=2):
    import gymnasium as gym

    low = (-1.0 - rng.random(A)).astype(np.float32)
    high = (0.5 + 2 * rng.random(A)).astype(np.float32)
    return gym.spaces.Box(low, high)


def opt(module, lr=1e-2):
    import optax
    from flax import nnx

    return nnx.Optimizer(module, optax.adam(lr), wrt=nnx.Param)


def rescale(module, f):
    import jax
    from flax import nnx

    nnx.update(module, jax.tree.map(lambda v: v * f, nnx.state(module, nnx.Param)))


def mlp(rng, n_in, n_out, act="tanh", scale=1.0):
    from flax import nnx

    from rl_blox.blox.function_approximator.mlp import MLP

    m = MLP(n_in, n_out, [6], act, nnx.Rngs(int(rng.integers(1 << 20))))
    if scale != 1.0:
        rescale(m, scale)
    return m


def double_q(rng, n_in, scale=1.0):
    from rl_blox.blox.double_qnet import ContinuousClippedDoubleQNet

    return ContinuousClippedDoubleQNet(mlp(rng, n_in, 1, scale=scale),
                                       mlp(rng, n_in, 1, scale=scale))


def tanh_policy(rng, space, d=3):
    from rl_blox.blox.function_approximator.policy_head import (
        DeterministicTanhPolicy,
    )

    return DeterministicTanhPolicy(mlp(rng, d, space.shape[0]), space)


def gaussian_tanh_policy(rng, space, d=3):
    from flax import nnx

    from rl_blox.blox.function_approximator.gaussian_mlp import GaussianMLP
    from rl_blox.blox.function_approximator.policy_head import GaussianTanhPolicy

    net = GaussianMLP(bool(rng.integers(2)), d, space.shape[0], [6], "tanh",
                      nnx.Rngs(int(rng.integers(1 << 20))))
    return GaussianTanhPolicy(net, space)


def term_pattern(rng, N, mode=None):
    mode = mode if mode is not None else rng.choice(["none", "all", "mixed"])
    if mode == "none":
        return np.zeros(N, np.int32)
    if mode == "all":
        return np.ones(N, np.int32)
    t = (rng.random(N) < 0.5).astype(np.int32)
    if N > 1:
        t[0], t[1] = 1, 0
    return t


def flat_batch(rng, N, d=3, A=2, discrete=None, term_mode=None):
    """Batch namedtuple of the flat replay buffer."""
    import jax.numpy as jnp

    from rl_blox.blox.replay_buffer import ReplayBuffer

    B = ReplayBuffer(1).Batch
    obs = rng.normal(size=(N, d)).astype(np.float32)
    nobs = rng.normal(size=(N, d)).astype(np.float32)
    rew = (rng.normal(size=N) * rng.choice([0.1, 1.0, 10.0])).astype(np.float32)
    term = term_pattern(rng, N, term_mode)
    if discrete:
        act = jnp.asarray(rng.integers(0, discrete, size=N), dtype=jnp.int32)
    else:
        act = jnp.asarray(rng.normal(size=(N, A)), dtype=jnp.float32)
    return B(jnp.asarray(obs), act, jnp.asarray(rew), jnp.asarray(nobs),
             jnp.asarray(term))


def leaves(obj):
    import jax
    from flax import nnx

    out = []
    for x in jax.tree_util.tree_leaves(nnx.state(obj)):
        try:
            out.append(np.asarray(x))
        except TypeError:
            out.append(np.asarray(jax.random.key_data(x)))
    return out


def digest(obj):
    import hashlib

    h = hashlib.sha256()
    for a in leaves(obj):
        h.update(str(a.dtype).encode() + str(a.shape).encode() + a.tobytes())
    return h.hexdigest()[:16]


def td7_state(rng, d=3):
    import gymnasium as gym

    from rl_blox.algorithm import td7

    space = box(rng)

    class E:
        observation_space = gym.spaces.Box(-np.inf, np.inf, (d,), np.float32)
        action_space = space

    st = td7.create_td7_state(E(), n_embedding_dimensions=5,
                              state_embedding_hidden_nodes=[6],
                              state_action_embedding_hidden_nodes=[6],
                              policy_sa_encoding_nodes=5, policy_hidden_nodes=[6],
                              q_sa_encoding_nodes=5, q_hidden_nodes=[6],
                              embedding_learning_rate=1e-2,
                              policy_learning_rate=1e-2, q_learning_rate=1e-2,
                              seed=int(rng.integers(1 << 20)))
    return st, space


def mrq_state(rng, d=3):
    import gymnasium as gym

    from rl_blox.algorithm import mrq

    space = box(rng)

    class E:
        observation_space = gym.spaces.Box(-np.inf, np.inf, (d,), np.float32)
        action_space = space

    st = mrq.create_mrq_state(E(), policy_hidden_nodes=[6], q_hidden_nodes=[6],
                              encoder_n_bins=9, encoder_zs_dim=5, encoder_za_dim=4,
                              encoder_zsa_dim=5, encoder_hidden_nodes=[6],
                              policy_learning_rate=1e-2, q_learning_rate=1e-2,
                              encoder_learning_rate=1e-2,
                              # documented option: activation after the final
                              # layer norm of the state encoder
                              encoder_activation_in_last_layer=bool(
                                  rng.integers(2)),
                              seed=int(rng.integers(1 << 20)))
    return st, space


def sub_batch(rng, N, h, d=3, A=2, reduced=False, term=None):
    """Batch namedtuple of the subtrajectory buffer (full or reduced view)."""
    import jax.numpy as jnp

    from rl_blox.blox.replay_buffer import SubtrajectoryReplayBuffer

    B = SubtrajectoryReplayBuffer(4).Batch
    j = lambda a: jnp.asarray(a, dtype=jnp.float32)  # noqa: E731
    if term is None:
        term = np.stack([term_pattern(rng, h, "mixed" if h > 1 else None)
                         if rng.random() < 0.5 else np.zeros(h, np.int32)
                         for _ in range(N)])
    if reduced:
        return B(j(rng.normal(size=(N, d))), j(rng.normal(size=(N, A))),
                 j(rng.normal(size=(N, h))), j(rng.normal(size=(N, d))),
                 jnp.asarray(term), jnp.zeros((N, h), jnp.int32))
    return B(j(rng.normal(size=(N, h, d))), j(rng.normal(size=(N, h, A))),
             j(rng.normal(size=(N, h))), j(rng.normal(size=(N, h, d))),
             jnp.asarray(term), jnp.zeros((N, h), jnp.int32))
