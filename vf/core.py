"""Runner, verdicts, evidence and known-findings handling shared by all checks.

A property module (vf.props.cXX) provides

    ID        : "C02"
    RULE      : str   - how cases are generated, what makes one non-trivial
    REQUIRED  : dict  - observation counter -> minimum count needed for a verdict
    gen_cases(tier, seed) -> list[dict]      (JSON-able case descriptions)
    run_case(case) -> Result                 (executed inside a worker process)

`run_case` drives the *real* repository code and lets its monitors (oracles)
look at what happened.  It returns a `Result`:

    viol : list of {"key": mechanism key, "msg": str, "witness": json}
    obs  : dict counter -> int (what the monitors actually observed)
    nontrivial : bool
    states : list[str] abstract states seen (hashed into a set by the runner)

Exit codes of a check: 0 held (possibly KNOWN-FINDING lines), 1 VIOLATION,
2 INCONCLUSIVE (monitor not reached / harness error / worker lost).
"""

from __future__ import annotations

import hashlib
import importlib
import json
import os
import subprocess
import sys
import tempfile
import time
import traceback
from collections import Counter

ROOT = os.path.dirname(os.path.dirname(os.path.abspath(__file__)))
PY = "/venv/bin/python"
DEPS = os.path.join(ROOT, ".deps")
WHEELS = "/opt/veriftools/wheels"
N_WORKERS = int(os.environ.get("VERIF_WORKERS", "16"))
# the tree under test: /repo's working tree.  (VERIF_REPO lets the author's
# mutation tool point the same checks at a scratch copy; registered commands
# never set it.)
REPO = os.environ.get("VERIF_REPO", "/repo")
EVIDENCE_DIR = os.environ.get("VERIF_EVIDENCE_DIR", os.path.join(ROOT, "evidence"))
REPLAY_DIR = os.environ.get("VERIF_REPLAY_DIR", os.path.join(ROOT, "replays"))


# --------------------------------------------------------------------------
# results
# --------------------------------------------------------------------------
class Result:
    def __init__(self):
        self.viol = []
        self.obs = Counter()
        self.nontrivial = False
        self.states = set()
        self.notes = []

    def violation(self, key, msg, witness=None):
        # keep the first few witnesses per key, count all
        self.obs["violations_seen"] += 1
        n = sum(1 for v in self.viol if v["key"] == key)
        if n < 3:
            self.viol.append(
                {"key": key, "msg": str(msg)[:2000], "witness": _jsonable(witness)}
            )
        else:
            for v in self.viol:
                if v["key"] == key:
                    v["more"] = v.get("more", 0) + 1
                    break

    def see(self, counter, n=1):
        self.obs[counter] += n

    def state(self, s):
        self.states.add(str(s))

    def to_json(self):
        return {
            "viol": self.viol,
            "obs": dict(self.obs),
            "nontrivial": bool(self.nontrivial),
            "states": sorted(self.states)[:2000],
            "notes": self.notes[:20],
        }


def _jsonable(x, depth=0):
    import numpy as np

    if depth > 6:
        return repr(x)[:200]
    if x is None or isinstance(x, (bool, int, str)):
        return x
    if isinstance(x, float):
        return x if x == x and abs(x) != float("inf") else repr(x)
    if isinstance(x, (np.integer,)):
        return int(x)
    if isinstance(x, (np.floating,)):
        return _jsonable(float(x))
    if isinstance(x, np.bool_):
        return bool(x)
    if isinstance(x, dict):
        return {str(k): _jsonable(v, depth + 1) for k, v in list(x.items())[:60]}
    if isinstance(x, (list, tuple, set)):
        return [_jsonable(v, depth + 1) for v in list(x)[:200]]
    try:
        a = np.asarray(x)
        if a.dtype == object:
            return repr(x)[:300]
        if a.size <= 400:
            return _jsonable(a.tolist(), depth + 1)
        return {"shape": list(a.shape), "head": _jsonable(a.ravel()[:40].tolist())}
    except Exception:
        return repr(x)[:300]


def repo_frame_in(tb_text: str) -> bool:
    """Does a formatted traceback pass through repository code?"""
    return "/rl_blox/" in tb_text


def innermost_repo_frame(tb_text: str) -> str:
    import re

    hits = re.findall(r'File "[^"]*/rl_blox/([^"]+)", line \d+, in (\S+)', tb_text)
    if not hits:
        return ""
    f, fn = hits[-1]
    return f"{f}:{fn}"


class MonitorFired(Exception):
    """Raised by an online monitor (contract / hook) from inside a call."""

    def __init__(self, key, msg, witness=None):
        super().__init__(msg)
        self.key, self.msg, self.witness = key, msg, witness


class HarnessError(Exception):
    """Raised by oracles when the harness itself is at fault (-> inconclusive)."""


def guarded(res: Result, key: str, fn, *a, **kw):
    """Run repository code; an exception whose traceback passes through the
    repository is recorded as violation `key`; anything else propagates (and
    makes the case inconclusive)."""
    try:
        return True, fn(*a, **kw)
    except HarnessError:
        raise
    except MonitorFired as e:
        res.violation(e.key, e.msg, e.witness)
        return False, None
    except Exception as e:  # noqa: BLE001
        tb = traceback.format_exc()
        if repo_frame_in(tb):
            res.violation(
                key,
                f"repository code raised {type(e).__name__}: {e} at {innermost_repo_frame(tb)}",
                {"traceback_tail": tb.strip().splitlines()[-12:]},
            )
            return False, None
        raise


# --------------------------------------------------------------------------
# deps (icontract) -- installed offline from the wheelhouse, on demand
# --------------------------------------------------------------------------
def ensure_deps():
    marker = os.path.join(DEPS, "icontract")
    if not os.path.isdir(marker):
        os.makedirs(DEPS, exist_ok=True)
        env = dict(os.environ, PIP_NO_INDEX="1")
        subprocess.run(
            [
                PY, "-m", "pip", "install", "--quiet", "--no-index",
                "--find-links", WHEELS, "--target", DEPS,
                "--no-deps", "icontract", "asttokens", "six",
            ],
            check=False, env=env, stdout=subprocess.DEVNULL,
            stderr=subprocess.DEVNULL,
        )
    if DEPS not in sys.path:
        sys.path.append(DEPS)  # at the END: never shadow /venv's packages


# --------------------------------------------------------------------------
# worker side
# --------------------------------------------------------------------------
def worker_env():
    env = dict(os.environ)
    env.update(
        JAX_PLATFORMS="cpu",
        XLA_FLAGS="--xla_cpu_multi_thread_eigen=false intra_op_parallelism_threads=1",
        OMP_NUM_THREADS="1",
        OPENBLAS_NUM_THREADS="1",
        MKL_NUM_THREADS="1",
        TF_CPP_MIN_LOG_LEVEL="3",
        TQDM_DISABLE="1",
        RL_BLOX_VERIF="1",
        PYTHONPATH=ROOT + os.pathsep + REPO + os.pathsep + env.get("PYTHONPATH", ""),
        PYTHONWARNINGS="ignore",
    )
    env.setdefault("PYTHONHASHSEED", "0")
    return env


def worker_main(argv):
    prop, infile, outfile = argv
    mod = importlib.import_module(f"vf.props.{prop.lower()}")
    with open(infile) as f:
        cases = json.load(f)
    with open(outfile, "a") as out:
        for idx, case in cases:
            t0 = time.time()
            rec = {"idx": idx}
            try:
                r = mod.run_case(case)
                rec.update(r.to_json())
            except MonitorFired as e:
                r = Result()
                r.violation(e.key, e.msg, e.witness)
                rec.update(r.to_json())
            except BaseException as e:  # noqa: BLE001
                tb = traceback.format_exc()
                rec["error"] = f"{type(e).__name__}: {e}"
                rec["traceback"] = tb.strip().splitlines()[-25:]
                rec["repo_frames"] = repo_frame_in(tb)
                rec["repo_where"] = innermost_repo_frame(tb)
                if isinstance(e, (KeyboardInterrupt, SystemExit)):
                    out.write(json.dumps(rec) + "\n")
                    raise
            rec["wall"] = round(time.time() - t0, 3)
            out.write(json.dumps(rec) + "\n")
            out.flush()


# --------------------------------------------------------------------------
# parent side
# --------------------------------------------------------------------------
def _read_jsonl(path):
    out = []
    if os.path.exists(path):
        with open(path) as f:
            for line in f:
                line = line.strip()
                if line:
                    try:
                        out.append(json.loads(line))
                    except json.JSONDecodeError:
                        pass
    return out


def run_cases_parallel(prop, cases, timeout_s, n_workers=None, extra_env=None):
    """Distribute (idx, case) pairs over worker subprocesses.  Returns
    list of result records aligned with `cases` (None where lost)."""
    n_workers = n_workers or N_WORKERS
    n = len(cases)
    if n == 0:
        return []
    nw = max(1, min(n_workers, n))
    # cost-aware round robin: cases may carry a 'cost' hint
    order = sorted(range(n), key=lambda i: -float(cases[i].get("cost", 1.0)))
    chunks = [[] for _ in range(nw)]
    loads = [0.0] * nw
    for i in order:
        j = loads.index(min(loads))
        chunks[j].append((i, cases[i]))
        loads[j] += float(cases[i].get("cost", 1.0))
    tmp = tempfile.mkdtemp(prefix=f"vf-{prop}-")
    env = worker_env()
    if extra_env:
        env.update(extra_env)
    procs = []
    try:
        for j, chunk in enumerate(chunks):
            fin = os.path.join(tmp, f"in{j}.json")
            fout = os.path.join(tmp, f"out{j}.jsonl")
            with open(fin, "w") as f:
                json.dump(chunk, f)
            log = open(os.path.join(tmp, f"log{j}.txt"), "w")
            p = subprocess.Popen(
                [PY, "-m", "vf.worker", prop, fin, fout],
                cwd=ROOT, env=env, stdout=log, stderr=subprocess.STDOUT,
            )
            procs.append((p, chunk, fout, log))
        deadline = time.time() + timeout_s
        results = [None] * n
        lost = []
        for p, chunk, fout, log in procs:
            try:
                p.wait(timeout=max(1.0, deadline - time.time()))
            except subprocess.TimeoutExpired:
                p.kill()
                p.wait()
            log.close()
            for rec in _read_jsonl(fout):
                results[rec["idx"]] = rec
            for i, _ in chunk:
                if results[i] is None:
                    lost.append(i)
        # retry lost cases one per process (a crashing case must not take
        # its neighbours with it)
        retry_deadline = time.time() + min(timeout_s, 900)
        pending = []
        for k, i in enumerate(lost[:64]):
            fin = os.path.join(tmp, f"rin{k}.json")
            fout = os.path.join(tmp, f"rout{k}.jsonl")
            with open(fin, "w") as f:
                json.dump([(i, cases[i])], f)
            pending.append((i, fin, fout))
        running = []
        while pending or running:
            while pending and len(running) < nw:
                i, fin, fout = pending.pop()
                p = subprocess.Popen(
                    [PY, "-m", "vf.worker", prop, fin, fout],
                    cwd=ROOT, env=env, stdout=subprocess.DEVNULL,
                    stderr=subprocess.DEVNULL,
                )
                running.append((p, i, fout))
            still = []
            for p, i, fout in running:
                if p.poll() is None and time.time() < retry_deadline:
                    still.append((p, i, fout))
                    continue
                if p.poll() is None:
                    p.kill()
                    p.wait()
                for rec in _read_jsonl(fout):
                    results[rec["idx"]] = rec
            running = still
            if running:
                time.sleep(0.2)
        return results
    finally:
        import shutil

        shutil.rmtree(tmp, ignore_errors=True)


def load_known():
    path = os.path.join(ROOT, "known_findings.json")
    if not os.path.exists(path):
        return []
    with open(path) as f:
        return json.load(f).get("findings", [])


def case_digest(case):
    return hashlib.sha256(
        json.dumps(case, sort_keys=True, default=str).encode()
    ).hexdigest()[:16]


def run_property(prop, tier, seed, replay=None):
    t0 = time.time()
    ensure_deps()
    mod = importlib.import_module(f"vf.props.{prop.lower()}")
    if replay:
        with open(replay) as f:
            rp = json.load(f)
        cases = [rp["case"]]
    else:
        cases = mod.gen_cases(tier, seed)
    timeout_s = getattr(mod, "TIMEOUT", {"quick": 900, "thorough": 3600})[tier]
    recs = run_cases_parallel(prop, cases, timeout_s)

    known = {k["key"]: k for k in load_known() if k.get("property") == prop}
    obs = Counter()
    states = set()
    viol_by_key = {}
    inconclusive = []
    nontrivial_digests = set()
    evaluations = 0
    samples = []
    sample_strata = set()
    for case, rec in zip(cases, recs):
        if rec is None:
            inconclusive.append({"case": case, "why": "worker lost / timed out"})
            continue
        if "error" in rec and rec.get("repo_frames") and getattr(
            mod, "RAISE_IS_VIOLATION", True
        ):
            # repository code raised on an in-domain workload: the property
            # cannot hold on that execution (mechanism key = where it raised)
            evaluations += 1
            key = f"{prop}/raises/{rec.get('repo_where', '?')}"
            viol_by_key.setdefault(key, []).append(
                {
                    "case": case, "key": key, "msg": rec["error"],
                    "witness": {"traceback_tail": rec.get("traceback")},
                }
            )
            continue
        if "error" in rec:
            inconclusive.append(
                {
                    "case": case,
                    "why": rec["error"],
                    "traceback": rec.get("traceback"),
                    "repo_frames": rec.get("repo_frames"),
                }
            )
            continue
        evaluations += 1
        for k, v in rec["obs"].items():
            obs[k] += v
        states.update(rec.get("states", []))
        if rec["nontrivial"]:
            nontrivial_digests.add(case_digest(case))
        # one written-out sample per kind of case (at most 8)
        stratum = tuple(str(case.get(k)) for k in ("kind", "algo", "routine", "cls",
                                                   "which", "head", "loss", "sched")
                        if isinstance(case, dict) and k in case)
        if rec["nontrivial"] and stratum not in sample_strata and len(samples) < 8:
            sample_strata.add(stratum)
            samples.append(
                {"case": case, "observed": rec["obs"], "wall_s": rec.get("wall")}
            )
        for v in rec["viol"]:
            viol_by_key.setdefault(v["key"], []).append({"case": case, **v})

    # classify
    known_lines = []
    new_viol = []
    for key, vs in sorted(viol_by_key.items()):
        ent = known.get(key)
        if ent is not None and ent.get("status") == "known":
            known_lines.append((key, ent, len(vs), vs[0]))
        else:
            new_viol.append((key, vs))

    required = getattr(mod, "REQUIRED", {})
    unmet = {k: (obs.get(k, 0), m) for k, m in required.items() if obs.get(k, 0) < m}
    if replay:
        unmet = {}

    replay_paths = []
    if new_viol:
        os.makedirs(REPLAY_DIR, exist_ok=True)
        for key, vs in new_viol:
            v = vs[0]
            h = hashlib.sha256(
                (key + json.dumps(v["case"], sort_keys=True, default=str)).encode()
            ).hexdigest()[:12]
            path = os.path.join(REPLAY_DIR, f"{prop}-{h}.json")
            with open(path, "w") as f:
                json.dump(
                    {
                        "property": prop, "key": key, "seed": seed, "tier": tier,
                        "case": v["case"], "msg": v["msg"],
                        "witness": v.get("witness"), "n_cases_with_key": len(vs),
                    },
                    f, indent=1, default=str,
                )
            replay_paths.append((key, path, v["msg"]))

    stale = [
        k for k, e in known.items()
        if e.get("status") == "known" and k not in viol_by_key
    ]
    wall = time.time() - t0
    if not samples and cases:
        samples.append({"case": cases[0], "note": "no non-trivial case completed"})
    evidence = {
        "property_id": prop,
        "tier": tier,
        "seed": int(seed),
        "level": "exploration",
        "coverage": {
            "evaluations": int(evaluations),
            "distinct_nontrivial": int(len(nontrivial_digests)),
            "rule": getattr(mod, "RULE", ""),
            "samples": samples,
            "states": int(len(states)),
            "observed": {k: int(v) for k, v in sorted(obs.items())},
            "required_observations": {k: int(v) for k, v in required.items()},
            "cases_generated": len(cases),
            "inconclusive_cases": len(inconclusive),
            "inconclusive_examples": [
                {"why": i["why"], "traceback": i.get("traceback")}
                for i in inconclusive[:3]
            ],
            "known_findings_reproduced": [
                {"key": k, "cases": n} for k, _, n, _ in known_lines
            ],
            "known_findings_not_reproduced": stale,
            "violation_keys": [k for k, _ in new_viol],
            "exhaustive": bool(getattr(mod, "EXHAUSTIVE", False)),
        },
        "assumptions": getattr(mod, "ASSUMPTIONS", []),
        "wall_s": round(wall, 2),
        "violations": int(len(new_viol)),
    }
    if not replay:
        os.makedirs(EVIDENCE_DIR, exist_ok=True)
        with open(os.path.join(EVIDENCE_DIR, f"{prop}.json"), "w") as f:
            json.dump(evidence, f, indent=1, default=str)

    # report
    print(
        f"[{prop}] tier={tier} seed={seed} cases={len(cases)} executed={evaluations} "
        f"distinct_nontrivial={len(nontrivial_digests)} states={len(states)} "
        f"wall={wall:.1f}s"
    )
    top = ", ".join(f"{k}={v}" for k, v in sorted(obs.items())[:40])
    print(f"[{prop}] observed: {top}")
    for key, ent, n, v in known_lines:
        print(
            f"KNOWN-FINDING: property={prop} {key} ({n} cases) {ent.get('what', '')}"
        )
    code = 0
    if new_viol:
        for key, path, msg in replay_paths:
            print(f"VIOLATION property={prop} replay={path}")
            print(f"  key={key}: {msg[:400]}")
        code = 1
    elif inconclusive or unmet or evaluations == 0:
        why = []
        if inconclusive:
            why.append(f"{len(inconclusive)} case(s) inconclusive: {inconclusive[0]['why'][:300]}")
            tb = inconclusive[0].get("traceback")
            if tb:
                print("\n".join("    " + t for t in tb[-14:]))
        if unmet:
            why.append(f"monitors not reached often enough (seen, needed): {unmet}")
        if evaluations == 0:
            why.append("nothing executed")
        print(f"INCONCLUSIVE property={prop} " + "; ".join(why))
        code = 2
    else:
        print(f"[{prop}] HELD on everything explored")
    return code
