import argparse
import os
import sys

from vf.core import run_property


def main():
    ap = argparse.ArgumentParser()
    ap.add_argument("prop")
    ap.add_argument("--tier", default=os.environ.get("VERIF_TIER", "quick"),
                    choices=["quick", "thorough"])
    ap.add_argument("--replay", default=None)
    a = ap.parse_args()
    seed = int(os.environ.get("VERIF_SEED", "0") or 0)
    sys.exit(run_property(a.prop.upper(), a.tier, seed, a.replay))


if __name__ == "__main__":
    main()
