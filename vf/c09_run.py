"""One training run in a fresh process; prints a canonical digest (C09)."""
import hashlib
import json
import os
import random
import sys
import time
import traceback

import numpy as np


def h(*parts):
    m = hashlib.sha256()
    for p in parts:
        if isinstance(p, np.ndarray):
            m.update(str(p.dtype).encode() + str(p.shape).encode() + p.tobytes())
        else:
            m.update(repr(p).encode())
    return m.hexdigest()[:20]


TRIP = []


def install_tripwire():
    """Record calls of the global NumPy / random generators whose stack passes
    through the repository (gives the location when two equal-seed runs differ)."""
    def wrap(mod, name):
        orig = getattr(mod, name)

        def f(*a, **kw):
            st = traceback.extract_stack(limit=12)
            hit = [fr for fr in st if "/rl_blox/" in fr.filename]
            if hit:
                TRIP.append(f"{mod.__name__}.{name} <- {hit[-1].filename.split('/rl_blox/')[-1]}:{hit[-1].lineno}")
            return orig(*a, **kw)

        setattr(mod, name, f)

    for name in ("rand", "randn", "randint", "random", "uniform", "normal", "choice",
                 "permutation", "shuffle", "random_sample"):
        if hasattr(np.random, name):
            wrap(np.random, name)
    for name in ("random", "randint", "choice", "uniform", "shuffle", "sample",
                 "gauss", "randrange"):
        wrap(random, name)
    orig_rng = np.random.default_rng

    def default_rng(seed=None, *a, **kw):
        if seed is None:
            st = traceback.extract_stack(limit=12)
            hit = [fr for fr in st if "/rl_blox/" in fr.filename]
            if hit:
                TRIP.append(f"unseeded default_rng <- {hit[-1].filename.split('/rl_blox/')[-1]}:{hit[-1].lineno}")
        return orig_rng(seed, *a, **kw)

    np.random.default_rng = default_rng
    orig_time = time.time
    del orig_time


def poison_uninitialised(ambient):
    """np.empty returns unspecified memory.  Fill it with a value that differs
    between the runs that are compared: a result that depends on uninitialised
    memory then shows up as a difference between two equal-seed runs."""
    orig_empty = np.empty

    def empty(shape, dtype=float, *a, **kw):
        arr = orig_empty(shape, dtype, *a, **kw)
        try:
            if arr.dtype.kind == "f":
                arr.fill(ambient * 3.0 + 0.5)
            elif arr.dtype.kind in "iu":
                arr.fill(ambient % 120)
            elif arr.dtype.kind == "b":
                arr.fill(bool(ambient % 2))
        except (ValueError, TypeError):
            pass
        return arr

    np.empty = empty


def main():
    cfg = json.loads(sys.argv[1])
    ambient = int(cfg.pop("ambient"))
    np.random.seed(ambient)
    random.seed(ambient)
    time.sleep(0.01 * (ambient % 7))
    install_tripwire()
    poison_uninitialised(ambient)
    from vf.core import ensure_deps
    ensure_deps()
    from vf.algos import make_run

    algo = cfg.pop("algo")
    out = {}
    if cfg.get("inplace_obs"):
        # where the environment's observation buffer lies in memory is ambient
        # state as well (64-byte aligned in run A, not in run B)
        cfg["inplace_obs"] = "aligned" if ambient == 11 else "misaligned"
    if cfg.pop("prelude", False):
        # process history is ambient state too: another training run of the
        # same routine (other seed, own networks / buffer / environment) is
        # executed first and thrown away.  Module-level caches or state that
        # survive a call make the measured run depend on it.
        import warnings
        # (other seed and, for the schedulers, other bandit settings)
        pre = dict(cfg, seed=cfg["seed"] + 7777, r_max=0.7, ducb_gamma=0.5, xi=0.3)
        with warnings.catch_warnings():
            warnings.simplefilter("ignore")
            if algo.startswith("sched:"):
                run_sched(algo[6:], pre)
            else:
                make_run(algo, pre).call()
    if algo.startswith("sched:"):
        out = run_sched(algo[6:], cfg)
    else:
        run = make_run(algo, cfg)
        import warnings
        with warnings.catch_warnings():
            warnings.simplefilter("ignore")
            run.call()
        tr = run.trace
        for name, obj in tr.objs.items():
            out["obj:" + name] = tr.digest_of(obj)
        res = run.result
        if hasattr(res, "_fields"):
            for f in res._fields:
                v = getattr(res, f)
                if isinstance(v, (int, float, bool, np.integer, np.floating)):
                    out["result:" + f] = repr(v)
                elif hasattr(v, "shape") and not hasattr(v, "buffer"):
                    out["result:" + f] = h(np.asarray(v))
        elif isinstance(res, tuple):
            for i, v in enumerate(res):
                if hasattr(v, "shape"):
                    out[f"result:{i}"] = h(np.asarray(v))
        elif hasattr(res, "shape"):
            out["result"] = h(np.asarray(res))
        buf = run.buffer
        if buf is not None and hasattr(buf, "buffer"):
            L = len(buf)
            out["buffer:len"] = L
            for k, a in buf.buffer.items():
                out["buffer:" + k] = h(np.asarray(a[:L]))
            if hasattr(buf, "priority"):
                out["buffer:priority"] = h(np.asarray(buf.priority.priority[:L]))
        out.update(trace_digest(tr))
    out["tripwire"] = sorted(set(TRIP))[:10]
    print("C09DIGEST " + json.dumps(out, sort_keys=True))


def trace_digest(tr):
    out = {}
    logs = [(e["key"], e["value"], e["episode"], e["step"]) for e in tr.events
            if e["k"] == "log_stat"]
    out["logger:n"] = len(logs)
    out["logger:records"] = h(json.dumps(logs, default=str))
    steps = [e for e in tr.events if e["k"] in ("step", "vstep")]
    out["env:n_steps"] = len(steps)
    out["env:actions"] = h(*[np.asarray(e["action"]) for e in steps])
    out["env:rewards"] = h(*[np.asarray(e["reward"]) for e in steps])
    out["env:obs"] = h(*[np.asarray(e["obs"]) for e in steps])
    return out


def run_sched(which, cfg):
    from functools import partial

    from flax import nnx

    from rl_blox.algorithm import active_mt, smt, td3, uniform_task_sampling
    from rl_blox.blox import multitask, replay_buffer as rb
    from vf.loop import ScriptEnv, Trace

    tr = Trace()
    tr.snap_enabled = False
    n_tasks = 3
    base = ScriptEnv(tr, [[4, "T"], [6, "U"], [3, "T"]], low=[-1.0], high=[1.0])

    def set_context(env, ctx):
        env.unwrapped.task = int(ctx[0])
        env.unwrapped.env_id = int(ctx[0])

    ts = multitask.DiscreteTaskSet(base, set_context,
                                   np.arange(n_tasks, dtype=np.float32)[:, None],
                                   context_aware=False)
    seed = cfg["seed"]
    st = td3.create_td3_state(base, policy_hidden_nodes=[8], q_hidden_nodes=[8],
                              policy_learning_rate=1e-2, q_learning_rate=1e-2,
                              seed=seed)
    pt, qt = nnx.clone(st.policy), nnx.clone(st.q)
    train_st = partial(td3.train_td3, policy=st.policy,
                       policy_optimizer=st.policy_optimizer, q=st.q,
                       q_optimizer=st.q_optimizer, policy_target=pt, q_target=qt,
                       batch_size=4)
    out = {}
    import warnings
    with warnings.catch_warnings():
        warnings.simplefilter("ignore")
        if which == "uts":
            r = uniform_task_sampling.train_uts(
                ts, partial(train_st, replay_buffer=rb.ReplayBuffer(500)),
                total_timesteps=60, episodes_per_task=1, seed=seed,
                exploring_starts=10, progress_bar=False)
            out["result:global_step"] = int(r.global_step)
        elif which == "smt":
            buf = rb.MultiTaskReplayBuffer(rb.ReplayBuffer(500), n_tasks)
            r, steps, perf = smt.train_smt(
                ts, train_st, buf, b1=40, b2=20, solved_threshold=1e9,
                unsolvable_threshold=-1e9, scheduling_interval=1, kappa=0.3, K=2,
                learning_starts=10, seed=seed, progress_bar=False)
            out["result:training_steps"] = [int(x) for x in steps]
            out["result:perf"] = h(np.asarray(perf))
        else:
            buf = rb.MultiTaskReplayBuffer(rb.ReplayBuffer(500), n_tasks)
            r, steps = active_mt.train_active_mt(
                ts, train_st, buf, r_max=cfg.get("r_max", 5.0),
                ducb_gamma=cfg.get("ducb_gamma", 0.95), xi=cfg.get("xi", 0.002),
                total_timesteps=90, scheduling_interval=1, learning_starts=10,
                seed=seed, progress_bar=False)
            out["result:training_steps"] = [int(x) for x in steps]
    for name, obj in (("policy", st.policy), ("q", st.q), ("policy_target", pt),
                      ("q_target", qt), ("policy_opt", st.policy_optimizer),
                      ("q_opt", st.q_optimizer)):
        out["obj:" + name] = tr.digest_of(obj)
    out["env:tasks"] = h([e.get("task") for e in tr.events if e["k"] == "step"])
    out.update(trace_digest(tr))
    return out


if __name__ == "__main__":
    main()
