"""Duck-typed stand-in for np.random.Generator whose draws are chosen by the
monitor.  Implements the arithmetic exactly as NumPy does:
    integers(low, high)  -> values in [low, high)
    uniform(low, high)   -> low + (high - low) * u,  u in [0, 1)
so that forcing `u` (or the integer) forces the index the buffer computes.
Every call is logged (method, arguments) so an oracle can also inspect the
range the code under test asked for.
"""

import numpy as np


class StubRng:
    def __init__(self, ints=None, u=None, choice_pos=None, fallback_seed=0):
        # ints: None -> enumerate the whole requested range cyclically
        #       callable(low, high, n) -> array
        # u:    array-like of variates in [0,1) used cyclically, or callable(n)
        # choice_pos: int or callable(len) -> position in the candidate list
        self.ints = ints
        self.u = u
        self.choice_pos = choice_pos
        self.calls = []
        self._real = np.random.default_rng(fallback_seed)

    # -- helpers
    @staticmethod
    def _n(size):
        if size is None:
            return 1, True
        if isinstance(size, (tuple, list)):
            return int(np.prod(size)), False
        return int(size), False

    def integers(self, low, high=None, size=None, **kw):
        if high is None:
            low, high = 0, low
        n, scalar = self._n(size)
        self.calls.append(("integers", int(low), int(high), n))
        if high <= low:
            # numpy raises here as well
            raise ValueError("low >= high")
        if self.ints is None:
            vals = (np.arange(n) % (high - low)) + low
        else:
            vals = np.asarray(self.ints(low, high, n), dtype=int)
        vals = vals.astype(int)
        if scalar:
            return int(vals[0])
        return vals.reshape(size)

    def uniform(self, low=0.0, high=1.0, size=None):
        n, scalar = self._n(size)
        low_a = np.asarray(low, dtype=float)
        high_a = np.asarray(high, dtype=float)
        self.calls.append(("uniform", n))
        if self.u is None:
            u = self._real.uniform(0.0, 1.0, n)
        elif callable(self.u):
            u = np.asarray(self.u(n), dtype=float)
        else:
            src = np.asarray(self.u, dtype=float)
            u = src[np.arange(n) % len(src)]
        out = low_a + (high_a - low_a) * u
        if scalar and out.ndim == 0:
            return float(out)
        return out if size is None else np.reshape(out, size)

    def choice(self, a, size=None, replace=True, p=None, **kw):
        a = np.asarray(a)
        if a.ndim == 0:
            a = np.arange(int(a))
        self.calls.append(("choice", a.tolist()))
        if len(a) == 0:
            raise ValueError("a cannot be empty")
        if self.choice_pos is None:
            pos = int(self._real.integers(0, len(a)))
        elif callable(self.choice_pos):
            pos = int(self.choice_pos(len(a))) % len(a)
        else:
            pos = int(self.choice_pos) % len(a)
        n, scalar = self._n(size)
        if scalar:
            return a[pos]
        return np.full(size, a[pos])
