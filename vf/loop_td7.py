"""In-loop monitor for TD7's deferred training / checkpointing (C15 b, also
used by C06 for the checkpoint copies)."""

import numpy as np

from vf.core import Result, guarded
from vf.loop import rebound, acting_obs_patches  # noqa: F401


def td7_cfg(rng, idx=0):
    lens = [int(x) for x in rng.choice([1, 2, 3, 4, 5, 7, 9], size=6)]
    kinds = [str(k) for k in rng.choice(["T", "U"], size=6)]
    return dict(
        script=list(zip(lens, kinds)), seed=int(rng.integers(1 << 20)),
        total_timesteps=int(rng.integers(50, 90)),
        learning_starts=int(rng.integers(3, 14)), batch_size=4,
        use_checkpoints=True,
        max_episodes_when_checkpointing=int(rng.integers(2, 4)),
        steps_before_checkpointing=int(rng.integers(8, 40)),
        target_delay=int(rng.integers(2, 6)), policy_delay=2,
        low=[-1.0, 0.0], high=[1.0, 2.0], snap_on_log=False, logger=bool(idx % 2),
        snap_on_step=False,
        # continued runs (the multi-task schedulers re-invoke the trainer so)
        global_step=int(rng.choice([0, 0, 7, 23])),
    )


def run_td7_case(case):
    res = Result()
    from rl_blox.algorithm import td7 as td7mod
    from vf.algos import make_run
    from vf.props.c15 import Ref, contracted

    rng = np.random.default_rng(case["seed"])
    cfg = td7_cfg(rng, case.get("idx", 0))
    cfg["total_timesteps"] += cfg["global_step"]  # the budget is absolute
    if case.get("idx", 0) % 2 == 0:
        # process history: an earlier, unrelated train_td7 call (own networks,
        # buffer and environment) must not influence this one - the statement
        # speaks about the steps collected and the returns seen in *this* run
        pre = dict(cfg, seed=cfg["seed"] + 991, global_step=0,
                   total_timesteps=int(rng.integers(30, 50)),
                   script=[[3, "T"], [2, "U"], [5, "T"]], logger=False)
        pre_run = make_run("td7", pre)
        pre_run.trace.snap_enabled = False
        ok, _ = guarded(res, "C15/raises/train_td7", pre_run.call)
        if not ok:
            return res
        res.see("td7_runs_after_an_earlier_run")
    run = make_run("td7", cfg)
    tr = run.trace
    tr.snap_enabled = False
    calls = []  # chronological: ("assess", args, out) / ("train", epoch) / ("copy",)
    in_train = [0]
    ckpt = [None]  # the evaluation checkpoint, known from its first copy on
    assess_c = contracted()
    # before any copy the checkpoint is a copy of the initial embedding / actor
    initial = (tr.digest_of(run.kwargs["embedding"]), tr.digest_of(run.kwargs["actor"]))

    def assess(*a, **kw):
        out = assess_c(*a, **kw)
        st = a[0]
        calls.append(dict(k="assess", n=tr.n_steps, length=int(a[1]),
                          ret=float(a[2]), it=int(a[3]), reset_weight=a[4],
                          long_window=a[5], thr=a[6], upd=bool(out[0]),
                          rel=int(out[1]), pending=int(st.timesteps_since_upate)))
        return out

    orig_train = td7mod._train_step

    def train_step(*a, **kw):
        epoch = a[11]
        policy, policy_target = a[6], a[7]
        calls.append(dict(k="train", n=tr.n_steps, epoch=int(epoch)))
        tr.objs.setdefault("live_policy", policy)
        in_train[0] += 1
        try:
            return orig_train(*a, **kw)
        finally:
            in_train[0] -= 1
            if ckpt[0] is not None:
                calls[-1]["ckpt"] = (tr.digest_of(ckpt[0].embedding),
                                     tr.digest_of(ckpt[0].actor))
        del policy_target

    orig_hard = td7mod.hard_target_net_update

    def hard(net, target):
        out = orig_hard(net, target)
        if not in_train[0]:
            ckpt[0] = target
            calls.append(dict(k="copy", n=tr.n_steps,
                              src=tr.digest_of(net), dst=tr.digest_of(target),
                              ckpt=(tr.digest_of(target.embedding),
                                    tr.digest_of(target.actor))))
        return out

    patches = [(td7mod, "assess_performance_and_checkpoint", assess),
               (td7mod, "_train_step", train_step),
               (td7mod, "hard_target_net_update", hard)]
    with rebound(patches):
        ok, result = guarded(res, "C15/raises/train_td7", run.call)
    if not ok:
        return res
    res.see("td7_runs")
    # the evaluation checkpoint is replaced only by the flagged copies
    last = initial
    for c in calls:
        if c["k"] == "copy":
            last = c["ckpt"]
        elif "ckpt" in c:
            if c["ckpt"] != last:
                part = "embedding" if c["ckpt"][0] != last[0] else "actor"
                res.violation("C15/td7/checkpoint_changed_outside_copy",
                              f"the evaluation checkpoint's {part} changed during "
                              f"training iteration {c['epoch']} (env step {c['n']}), "
                              f"not by a flagged checkpoint update")
                return res
            res.see("td7_checkpoint_stability_checks")
    final = (tr.digest_of(result.fixed_embedding), tr.digest_of(result.actor))
    if final != last:
        part = "fixed_embedding" if final[0] != last[0] else "actor"
        res.violation("C15/td7/returned_checkpoint",
                      f"the returned {part} is not the evaluation checkpoint as of "
                      f"its last flagged update"
                      + ("" if ckpt[0] is not None else " (never updated: should "
                         "equal the initial networks)"))
        return res
    res.see("td7_returned_checkpoint_checks")
    # episode lengths / returns from the environment log
    eps = []
    cur_len, cur_ret = 0, 0.0
    step_no = 0
    for e in tr.events:
        if e["k"] == "step":
            step_no += 1
            cur_len += 1
            cur_ret += e["reward"]
            if e["terminated"] or e["truncated"]:
                eps.append(dict(end=step_no, length=cur_len, ret=cur_ret))
                cur_len, cur_ret = 0, 0.0
    by_end = {ep["end"]: ep for ep in eps}
    ls = cfg["learning_starts"]
    G = cfg["global_step"]
    ref = Ref()
    expected_epoch = max(0, G - ls)
    i = 0
    released_total = assessed_total = 0
    n_copies = n_flags = 0
    while i < len(calls):
        c = calls[i]
        if c["k"] == "train":
            res.violation("C15/td7/unreleased_training",
                          f"training iteration at env step {c['n']} outside a "
                          f"release window (use_checkpoints=True)")
            return res
        if c["k"] == "copy":
            res.violation("C15/td7/copy_without_flag",
                          f"checkpoint copy at env step {c['n']} without an "
                          f"assessment flag")
            return res
        # an assessment
        ep = by_end.get(c["n"])
        if ep is None:
            res.violation("C15/td7/assess_not_at_episode_end",
                          f"assessment at env step {c['n']} which does not end "
                          f"an episode")
            return res
        if G + c["n"] - 1 < ls:
            res.violation("C15/td7/assess_before_learning_starts",
                          f"assessment at step index {G + c['n'] - 1} < "
                          f"learning_starts")
            return res
        if c["length"] != ep["length"] or abs(c["ret"] - ep["ret"]) > 1e-6:
            res.violation("C15/td7/assess_arguments",
                          f"assessment got (length {c['length']}, return "
                          f"{c['ret']}), environment log says ({ep['length']}, "
                          f"{ep['ret']})")
            return res
        if c["it"] != expected_epoch:
            res.violation("C15/td7/iteration_counter",
                          f"assessment sees training-iteration count {c['it']}, "
                          f"{expected_epoch} iterations were executed")
            return res
        w_upd, w_rel = ref.step(c["length"], c["ret"], c["it"], c["reset_weight"],
                                c["long_window"], c["thr"])
        if (c["upd"], c["rel"]) != (w_upd, w_rel):
            res.violation("C15/release_count" if c["rel"] != w_rel
                          else "C15/checkpoint_flag",
                          f"in train_td7: assessment returned ({c['upd']}, "
                          f"{c['rel']}), statement gives ({w_upd}, {w_rel})")
            return res
        assessed_total += c["length"]
        j = i + 1
        if c["upd"]:
            n_flags += 1
            if j >= len(calls) or calls[j]["k"] != "copy":
                res.violation("C15/td7/flag_without_copy", f"checkpoint flag at "
                              f"env step {c['n']} but no checkpoint copy followed")
                return res
            if calls[j]["src"] != calls[j]["dst"]:
                res.violation("C15/td7/copy_not_equal", "checkpoint differs from "
                              "the live policy right after the copy")
                return res
            n_copies += 1
            j += 1
        elif j < len(calls) and calls[j]["k"] == "copy":
            res.violation("C15/td7/copy_without_flag",
                          f"checkpoint copy at env step {calls[j]['n']} although "
                          f"the assessment did not flag an update")
            return res
        n_train = 0
        while j < len(calls) and calls[j]["k"] == "train" and calls[j]["n"] == c["n"]:
            expected_epoch += 1
            if calls[j]["epoch"] != expected_epoch:
                res.violation("C15/td7/iteration_counter",
                              f"training iteration numbered {calls[j]['epoch']}, "
                              f"expected {expected_epoch} (skipped/repeated)")
                return res
            n_train += 1
            j += 1
        if n_train != c["rel"]:
            res.violation("C15/td7/released_vs_executed",
                          f"assessment at env step {c['n']} released {c['rel']} "
                          f"iterations, {n_train} were executed")
            return res
        released_total += n_train
        if released_total != assessed_total - c["pending"]:
            res.violation("C15/ledger", f"in train_td7: released "
                          f"{released_total} != assessed steps {assessed_total} - "
                          f"pending {c['pending']}")
            return res
        res.see("td7_releases_checked")
        if c["rel"]:
            res.see("td7_nonzero_releases")
        i = j
    # every episode that ended at/after learning_starts was assessed
    want = [ep["end"] for ep in eps if G + ep["end"] - 1 >= ls]
    got = [c["n"] for c in calls if c["k"] == "assess"]
    if want != got:
        res.violation("C15/td7/assessment_missing", f"episodes ending at env "
                      f"steps {want} should be assessed, assessed: {got}")
    res.see("td7_copies", n_copies)
    res.see("td7_flags", n_flags)
    res.nontrivial = released_total > 0 and n_flags > 0
    res.state(("td7", n_flags > 0, ref.switched, released_total > 0, G > 0))
    return res
